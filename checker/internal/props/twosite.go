package props

import (
	"go/token"
	"go/types"
	"strings"

	"golang.org/x/tools/go/ssa"

	. "seqverif/internal/kit"
)

// Agreement rules between two sites: each of them names two local conditions, one at each site, of which at least
// one must hold. Either site may be rewritten on its own as long as the other still carries the invariant; the rule
// reports only when neither does (seed round 7: changes made of two hunks that are harmless one by one).

// successReturnsDominatedBy: every return of fn whose error may be nil is dominated by a call selected by m.
func successReturnsDominatedBy(c *Ctx, fn *ssa.Function, m Matcher) bool {
	idx := ErrorResultIndex(fn)
	calls := CallsIn(fn, c.P.MustCall(m))
	for _, b := range fn.Blocks {
		ret, ok := b.Instrs[len(b.Instrs)-1].(*ssa.Return)
		if !ok || b == fn.Recover {
			continue
		}
		if idx >= 0 {
			nonNil := true
			for _, rp := range ReturnPaths(fn, idx) {
				if rp.Ret == ret && !DefinitelyNonNil(rp.Val, rp.Facts) {
					nonNil = false
				}
			}
			if nonNil {
				continue
			}
		}
		dom := false
		for _, cl := range calls {
			if Dominates(cl.(ssa.Instruction), ret) {
				dom = true
			}
		}
		if !dom {
			return false
		}
	}
	return len(calls) > 0
}

// C01.13: a replayed fraction that is kept has had its tails cut.
func keptFractionIsTruncated(c *Ctx) {
	tt := c.Fn("(*frac.Active).truncateTails")
	ld := c.Fn("(*fracmanager.loader).load")
	if tt == nil || ld == nil {
		return
	}
	always := successReturnsDominatedBy(c, tt, c.P.MayCall(Callee("(*os.File).Truncate")))
	// the loader drops every fraction that replayed to nothing: the removal is decided by DocsTotal == 0 alone
	dropsAllEmpty := false
	for _, rm := range CallsIn(ld, Callee("fracmanager.removeFractionFiles")) {
		l := InnermostLoop(rm.(ssa.Instruction).Block())
		if l == nil {
			continue
		}
		hasZero, extra := false, 0
		for _, f := range FactsAtInstr(rm.(ssa.Instruction)) {
			if iff, ok := l.Header.Instrs[len(l.Header.Instrs)-1].(*ssa.If); ok && iff.Cond == f.Cond {
				continue
			}
			// the exit conditions of loops that ran before say nothing about this fraction
			isLoopCond := false
			for _, ol := range Loops(ld) {
				if iff, ok := ol.Header.Instrs[len(ol.Header.Instrs)-1].(*ssa.If); ok && iff.Cond == f.Cond {
					isLoopCond = true
				}
			}
			if isLoopCond {
				continue
			}
			bo, isBo := f.Cond.(*ssa.BinOp)
			if isBo && (bo.Op == token.EQL) == f.Val && (bo.Op == token.EQL || bo.Op == token.NEQ) {
				if k, isK := ConstInt(bo.Y); isK && k == 0 && DerivesFrom(bo.X, func(v ssa.Value) bool { return ValueIsField(v, "frac.Info", "DocsTotal") }) {
					hasZero = true
					continue
				}
			}
			// facts about errors that were checked before (err == nil) do not restrict the removal
			if isBo && (IsNilConst(bo.X) || IsNilConst(bo.Y)) {
				continue
			}
			extra++
			c.Note("load: extra condition on the removal of an empty fraction: %s = %v", f.Cond.String(), f.Val)
		}
		if hasZero && extra == 0 {
			dropsAllEmpty = true
		} else {
			c.Note("removeFractionFiles in load: DocsTotal==0 fact: %v, other conditions: %d", hasZero, extra)
		}
	}
	switch {
	case always:
		c.Site(tt.Pos(), "truncateTails cuts both files on every success path")
	case dropsAllEmpty:
		c.Site(ld.Pos(), "truncateTails may skip an empty fraction: the loader removes every fraction that replayed to nothing")
	default:
		c.Violation("pair:truncate-or-drop", tt.Pos(), "truncateTails returns without cutting the files on some success path, and the loader keeps (some) fractions that replayed to nothing: a fresh fraction whose first bulk was torn by a crash is reused with the torn meta block and the orphan docs block still in it, and the next replay misreads everything appended behind them")
	}
}

// C02.13: the LID window handed to the range node is well-formed, or the node's end test does not rely on it.
func rangeNodeEndsOnEmptyWindow(c *Ctx) {
	nx := c.Fn("(*node.nodeRange).Next")
	gb := c.Fn("frac/processor.getLIDsBorders")
	if nx == nil || gb == nil {
		return
	}
	// robust: the stop test is an ordering test (a call of the node's less function, or < / >), not an equality with one value
	robust := false
	for _, b := range nx.Blocks {
		iff, ok := b.Instrs[len(b.Instrs)-1].(*ssa.If)
		if !ok {
			continue
		}
		switch x := iff.Cond.(type) {
		case *ssa.Call:
			robust = true
			_ = x
		case *ssa.BinOp:
			if x.Op == token.LSS || x.Op == token.GTR || x.Op == token.LEQ || x.Op == token.GEQ {
				robust = true
			}
		}
	}
	// invariant: the second border search starts where the first one ended (max >= min-1)
	bs := CallsIn(gb, Callee("util.BinSearchInRange"))
	chained := false
	if len(bs) >= 2 {
		for _, second := range bs[1:] {
			for _, first := range bs {
				if first != second && DerivesFrom(Arg(second, 0), func(v ssa.Value) bool { return v == first.Value() }) {
					chained = true
				}
			}
		}
	}
	switch {
	case robust:
		c.Site(nx.Pos(), "the range node stops on an ordering test: any window, also an inverted one, ends")
	case chained:
		c.Site(gb.Pos(), "the range node stops on equality with its bound; getLIDsBorders chains its two searches, so max >= min-1")
	default:
		c.Violation("pair:range-window", nx.Pos(), "nodeRange.Next stops only when it hits one exact value, and getLIDsBorders no longer searches the second border from the first one: for from > to the window is (4,1)-like, the node never meets its stop value, NOT queries return documents for an empty window and a search with total spins until it is cancelled")
	}
}

// C03.11 (= C02.14): the field's lowest token is the first block's.
func fieldMinValIsFirstEntrys(c *Ctx) {
	ldr := c.Fn("(*frac/token.TableLoader).load")
	if ldr == nil {
		return
	}
	hosts := []*ssa.Function{ldr}
	for _, call := range CallsIn(ldr, nil) {
		if h := StaticCallee(call); h != nil && h.Blocks != nil && PkgOf(h) == "frac/token" {
			hosts = append(hosts, h)
		}
	}
	// reader side: FieldData.MinVal is taken under "this is entry 0"
	firstOnly, stores := true, 0
	for _, h := range hosts {
		for _, st := range InstrsIn(h, FieldStore("frac/token.FieldData", "MinVal")) {
			stores++
			ok := false
			for _, f := range FactsAtInstr(st) {
				bo, isBo := f.Cond.(*ssa.BinOp)
				if !isBo || (bo.Op != token.EQL && bo.Op != token.NEQ) || (bo.Op == token.EQL) != f.Val {
					continue
				}
				if k, isK := ConstInt(bo.Y); isK && k == 0 {
					if _, isStr := bo.X.Type().Underlying().(*types.Basic); isStr && bo.X.Type().Underlying().(*types.Basic).Info()&types.IsInteger != 0 {
						ok = true
					}
				}
			}
			if !ok {
				firstOnly = false
			}
		}
	}
	// writer side: TableEntry.MinVal is filled only for the entry that opens a field (in the step that creates the FieldData)
	writerFirstOnly := true
	for _, fn := range c.P.FuncsInPkg("frac") {
		for _, st := range InstrsIn(fn, FieldStore("frac/token.TableEntry", "MinVal")) {
			sameStep := false
			for _, in := range st.Block().Instrs {
				if s2, ok := in.(*ssa.Store); ok && IsFieldAddr(s2.Addr, "frac/token.FieldData", "MinVal") {
					sameStep = true
				}
			}
			// or under the fact that the field was not in the table yet
			for _, f := range FactsAtInstr(st) {
				if e, ok := f.Cond.(*ssa.Extract); ok && e.Index == 1 && !f.Val {
					if lk, isL := e.Tuple.(*ssa.Lookup); isL && lk.CommaOk {
						sameStep = true
					}
				}
			}
			if !sameStep {
				writerFirstOnly = false
			}
		}
	}
	switch {
	case stores == 0:
		c.Undecided("pair:field-minval:nostore", ldr.Pos(), "the token table loader no longer sets FieldData.MinVal")
	case firstOnly:
		c.Site(ldr.Pos(), "the loader takes a field's MinVal from its first entry")
	case writerFirstOnly:
		c.Site(ldr.Pos(), "the loader takes a field's MinVal from the first entry that has one; the writer gives one to the first entry only")
	default:
		c.Violation("pair:field-minval", ldr.Pos(), "the loader takes a field's lowest token from the first entry with a non-empty MinVal, and the writer fills MinVal for every entry: when the lowest token of a field is the empty string the second block's first token is taken for it, and the reloaded table rejects every hint below that value")
	}
}

// C03.12: a decoded flag that somebody consumes is encoded from the same flag.
func consumedChunkFlagIsEncoded(c *Ctx) {
	pack := c.Fn("(*frac/lids.Chunks).Pack")
	if pack == nil {
		return
	}
	var readers []string
	for _, fn := range c.P.Funcs {
		if !c.P.InRepo(fn) || fn.Blocks == nil {
			continue
		}
		n := FuncName(fn)
		if strings.HasSuffix(n, ".Pack") || strings.Contains(strings.ToLower(n), "unpack") {
			continue
		}
		if strings.HasPrefix(PkgOf(fn), "cmd/") {
			continue // offline diagnostic tools (index_analyzer) are not part of the store
		}
		if len(InstrsIn(fn, FieldLoad("frac/lids.Chunks", "IsLastLID"))) > 0 {
			readers = append(readers, n)
		}
	}
	encodes := false
	for _, b := range pack.Blocks {
		if iff, ok := b.Instrs[len(b.Instrs)-1].(*ssa.If); ok && DerivesFrom(iff.Cond, func(v ssa.Value) bool { return ValueIsField(v, "frac/lids.Chunks", "IsLastLID") }) {
			encodes = true
		}
	}
	switch {
	case len(readers) == 0:
		c.Site(pack.Pos(), "nothing outside the codec reads Chunks.IsLastLID")
	case encodes:
		c.Site(pack.Pos(), "Chunks.IsLastLID is read by %v and Pack writes the end marker from it", readers)
	default:
		c.Violation("pair:chunks-islast", pack.Pos(), "%v decide(s) from the decoded Chunks.IsLastLID, but Pack no longer writes the end marker from that flag: for a token whose postings fill a block exactly the marker is missing, the reader takes the token to go on in the next block and indexes a chunk that is not there", readers)
	}
}

// C04.12: LessOrEqual is never asked about a position beyond the table, or answers it.
func lessOrEqualBorder(c *Ctx) {
	le := c.Fn("(*frac.sealedIDsIndex).LessOrEqual")
	fl := c.Fn("(*frac.sealedFetchIndex).findLIDs")
	if le == nil || fl == nil {
		return
	}
	// the border clause: a constant-true return under a comparison of lid with the table size
	clause := false
	for _, rp := range ReturnPaths(le, 0) {
		if v, isK := ConstBool(rp.Val); !isK || !v {
			continue
		}
		for _, f := range rp.Facts {
			bo, ok := f.Cond.(*ssa.BinOp)
			if ok && DerivesFrom(bo, func(v ssa.Value) bool {
				return ValueIsField(v, "frac.IDsTable", "IDsTotal") || ValueIsField(v, "frac/ids.Table", "IDsTotal") || strings.HasSuffix(func() string { _, f, _, _ := FieldOf(v); return f }(), "IDsTotal")
			}) {
				clause = true
			}
		}
	}
	// every search of findLIDs stays inside [1, Len()-1]: its upper argument derives from Len()-1 alone (not from an earlier result)
	bounded := true
	for _, bs := range CallsIn(fl, Callee("util.BinSearchInRange")) {
		hi := Arg(bs, 1)
		fromResult := DerivesFrom(hi, func(v ssa.Value) bool {
			cl, ok := v.(ssa.CallInstruction)
			return ok && CallName(cl) == "util.BinSearchInRange"
		})
		if fromResult {
			bounded = false
		}
	}
	switch {
	case clause:
		c.Site(le.Pos(), "LessOrEqual answers for positions beyond the table")
	case bounded:
		c.Site(fl.Pos(), "LessOrEqual has no clause for positions beyond the table; findLIDs never searches beyond Len()-1")
	default:
		c.Violation("pair:lessorequal-border", le.Pos(), "LessOrEqual no longer answers for a position beyond the ID table, and findLIDs uses an earlier search result (which is Len() for an id below everything stored) as the upper end of the next search: the probe indexes past the table, the panic is turned into an error and the whole fetch fails because of one absent id")
	}
}

// C05.10: the list that is consumed in chunks is sorted, whatever the chunk size.
func chunkedListIsSorted(c *Ctx) {
	pf := c.Fn("(*fracmanager.Searcher).prepareFracs")
	sd := c.Fn("(*fracmanager.Searcher).SearchDocs")
	if pf == nil || sd == nil {
		return
	}
	always := successReturnsDominatedBy(c, pf, Callee("(fracmanager.List).Sort"))
	// the chunk size is the configured one (or everything at once): nothing else enters it
	plain := true
	for _, sh := range CallsIn(sd, Callee("(*fracmanager.List).Shift")) {
		n := Arg(sh, 0)
		other := DerivesFrom(n, func(v ssa.Value) bool {
			cl, ok := v.(*ssa.Call)
			if !ok {
				return false
			}
			switch CallName(cl) {
			case "builtin.len":
				return false
			case "builtin.min", "builtin.max", "builtin.cap":
				return true
			}
			return false
		})
		if other {
			plain = false
		}
	}
	switch {
	case always:
		c.Site(pf.Pos(), "prepareFracs sorts the list on every success path")
	case plain:
		c.Site(pf.Pos(), "prepareFracs sorts only when there is more than one iteration; SearchDocs iterates by the configured chunk size alone")
	default:
		c.Violation("pair:sorted-chunks", pf.Pos(), "prepareFracs skips the sort when the configured iteration size covers the list, while SearchDocs cuts its iterations by something else as well (the worker pool size): an unsorted list is consumed in several chunks, the early-termination test reads the wrong border and fractions with newer documents are never searched")
	}
}

// C06.9: an operand without samples does not touch the extrema.
func mergeIgnoresEmptyOperand(c *Ctx) {
	fn := c.Fn("(*seq.SamplesContainer).Merge")
	if fn == nil {
		return
	}
	// the operand: a parameter that is not the receiver — of Merge itself, or of a private helper Merge hands it on to
	isOperand := func(v ssa.Value) bool {
		p, ok := v.(*ssa.Parameter)
		if !ok || p.Parent() == nil || len(p.Parent().Params) == 0 {
			return false
		}
		return p != p.Parent().Params[0] && strings.HasSuffix(TypeStr(p.Type()), "seq.SamplesContainer")
	}
	fieldOfOperand := func(v ssa.Value, field string) bool {
		l, ok := v.(*ssa.UnOp)
		if !ok {
			return false
		}
		a, ok := l.X.(*ssa.FieldAddr)
		if !ok || !isOperand(a.X) {
			return false
		}
		_, fld, _, okF := FieldOf(a)
		return okF && fld == field
	}
	n := 0
	for _, f := range []string{"Min", "Max"} {
		f := f
		for _, l := range c.P.FindLifted(fn, func(in ssa.Instruction) bool {
			v, ok := in.(ssa.Value)
			return ok && fieldOfOperand(v, f)
		}) {
			n++
			guarded := false
			for _, fact := range l.Facts() {
				bo, isBo := fact.Cond.(*ssa.BinOp)
				if !isBo || !(fieldOfOperand(bo.X, "Total") || fieldOfOperand(bo.Y, "Total")) {
					continue
				}
				switch bo.Op {
				case token.EQL:
					guarded = guarded || !fact.Val
				case token.NEQ, token.GTR:
					guarded = guarded || fact.Val
				}
			}
			if guarded {
				c.Site(l.In.Pos(), "Merge reads the operand's %s only when the operand has samples", f)
			} else if bare := containersWithoutSentinels(c); len(bare) == 0 {
				c.Site(l.In.Pos(), "Merge reads the operand's %s also when it holds no samples; every container the repo builds starts from the sentinels, which are identities for min/max", f)
			} else {
				c.Violation("dom:Merge:empty-operand:"+f, l.In.Pos(), "SamplesContainer.Merge reads the operand's %s although the operand may hold no samples: a part that only counted not-exists documents (Total == 0, Min == Max == 0) drags the minimum or maximum of the group to 0, and only when it is merged after a part with values — the result depends on the merge order", f)
			}
		}
	}
	if n == 0 {
		c.Undecided("dom:Merge:empty-operand:none", fn.Pos(), "Merge no longer reads the operand's Min/Max")
	}
}

// C06.10: a token iterator that steps on after a hit is asked once per document.
func iteratorConsumedOncePerDoc(c *Ctx) {
	fn := c.Fn("(*frac/processor.SourcedNodeIterator).ConsumeTokenSource")
	if fn == nil {
		return
	}
	// eager: an advance of the underlying node outside the catch-up loop
	eager := false
	for _, call := range CallsIn(fn, func(cl ssa.CallInstruction) bool {
		return cl.Common().IsInvoke() && cl.Common().Method.Name() == "NextSourced"
	}) {
		if !InLoop(call.(ssa.Instruction).Block()) {
			eager = true
		}
	}
	shared := ""
	for _, f := range c.P.FuncsInPkg("frac/processor") {
		for _, call := range CallsIn(f, nil) {
			h := StaticCallee(call)
			if h == nil || !c.P.InRepo(h) {
				continue
			}
			var its []ssa.Value
			for _, a := range call.Common().Args {
				if strings.HasSuffix(TypeStr(a.Type()), "processor.SourcedNodeIterator") {
					its = append(its, a)
				}
			}
			for i := range its {
				for j := i + 1; j < len(its); j++ {
					if its[i] == its[j] {
						shared = FuncName(f) + " -> " + FuncName(h)
					}
				}
			}
		}
	}
	switch {
	case !eager:
		c.Site(fn.Pos(), "ConsumeTokenSource leaves the node on a hit: asking twice for one document gives the same answer")
	case shared == "":
		c.Site(fn.Pos(), "ConsumeTokenSource steps over a hit at once; no aggregator is given one iterator for two roles")
	default:
		c.Violation("pair:iterator-once", fn.Pos(), "ConsumeTokenSource steps over a hit at once, and %s hands one iterator to an aggregator for two roles: the second question about the same document finds the node advanced, every document counts as lacking the field", shared)
	}
}

// C10.10: the format that has its own parser is picked by name, or it is where the position says.
func timeFormatByNameOrPosition(c *Ctx) {
	fn := c.Fn("proxy/bulk.extractDocTime")
	if fn == nil {
		return
	}
	isTable := func(v ssa.Value) bool {
		return DerivesFrom(v, func(x ssa.Value) bool {
			g, ok := x.(*ssa.Global)
			return ok && g.Name() == "TimeFormats" && g.Pkg != nil && strings.HasSuffix(g.Pkg.Pkg.Path(), "consts")
		})
	}
	positional := false
	for _, f := range WithClosures(fn) {
		for _, b := range f.Blocks {
			for _, in := range b.Instrs {
				switch x := in.(type) {
				case *ssa.Slice:
					if isTable(x.X) && (x.Low != nil || x.High != nil) {
						positional = true
					}
				case *ssa.IndexAddr:
					if _, isK := ConstInt(x.Index); isK && isTable(x.X) {
						positional = true
					}
				}
			}
		}
	}
	if !positional {
		c.Site(fn.Pos(), "extractDocTime goes through consts.TimeFormats without relying on positions")
		return
	}
	// the table as initialised: element 0
	es := constString(c.P.TypesPkg("consts"), "ESTimeFormat")
	first := ""
	for _, f := range c.P.Funcs {
		if f.Name() != "init" || f.Pkg == nil || !strings.HasSuffix(f.Pkg.Pkg.Path(), "seq-db/consts") {
			continue
		}
		for _, b := range f.Blocks {
			for _, in := range b.Instrs {
				st, ok := in.(*ssa.Store)
				if !ok {
					continue
				}
				ia, ok := st.Addr.(*ssa.IndexAddr)
				if !ok {
					continue
				}
				if k, isK := ConstInt(ia.Index); !isK || k != 0 {
					continue
				}
				if s, isS := ConstString(st.Val); isS {
					// the array this element belongs to ends up in TimeFormats
					for _, in2 := range b.Instrs {
						if s2, ok := in2.(*ssa.Store); ok {
							if g, isG := s2.Addr.(*ssa.Global); isG && g.Name() == "TimeFormats" && DerivesFrom(s2.Val, func(v ssa.Value) bool { return v == ia.X }) {
								first = s
							}
						}
					}
				}
			}
		}
	}
	switch {
	case first == "":
		c.Undecided("pair:timeformats:init", fn.Pos(), "extractDocTime relies on positions in consts.TimeFormats, but the initial contents of the table could not be read")
	case first == es:
		c.Site(fn.Pos(), "extractDocTime skips TimeFormats[0]; it is the format with the dedicated parser")
	default:
		c.Violation("pair:timeformats", fn.Pos(), "extractDocTime treats consts.TimeFormats by position (the first entry has its own parser, the rest go to time.Parse), but the first entry of the table is %q, not the ES format: the ES layout reaches the lenient time.Parse, which accepts spellings the strict parser rejects, and the id carries a document time the property says is the receive time", first)
	}
}

// C17.9: LIDs are handed out in the order the filtered collector holds its documents.
func lidsFollowCollectorOrder(c *Ctx) {
	aw := c.Fn("(*frac.ActiveIndexer).appendWorker")
	gi := c.Fn("frac.getIndexesOfIntercept")
	if aw == nil || gi == nil {
		return
	}
	fromCollector := true
	n := 0
	for _, l := range c.P.FindLifted(aw, CallSel(Callee("(*frac.Active).AppendIDs"))) {
		n++
		// the column itself (read after the filter), not something computed from it before
		arg := Arg(l.Call(), 0)
		direct := ValueIsField(arg, "frac.metaDataCollector", "IDs")
		if p, isParam := arg.(*ssa.Parameter); isParam && !direct {
			direct = true
			for _, caller := range c.P.Callers(p.Parent()) {
				for i, q := range p.Parent().Params {
					if q == p && (i >= len(caller.Common().Args) || !ValueIsField(caller.Common().Args[i], "frac.metaDataCollector", "IDs")) {
						direct = false
					}
				}
			}
		}
		if !direct {
			fromCollector = false
		}
	}
	// ascending: the index that is appended to the result is the induction variable of a loop that counts up
	ascending := false
	for _, ap := range CallsIn(gi, Callee("builtin.append")) {
		l := InnermostLoop(ap.(ssa.Instruction).Block())
		if l == nil {
			continue
		}
		for _, in := range l.Header.Instrs {
			phi, ok := in.(*ssa.Phi)
			if !ok {
				continue
			}
			for _, e := range phi.Edges {
				if bo, isBo := e.(*ssa.BinOp); isBo && bo.Op == token.ADD && bo.X == ssa.Value(phi) {
					if k, isK := ConstInt(bo.Y); isK && k > 0 {
						ascending = true
					}
				}
				if bo, isBo := e.(*ssa.BinOp); isBo && bo.Op == token.ADD {
					if ph2, isPhi := bo.X.(*ssa.Phi); isPhi && ph2 == phi {
						continue
					}
				}
			}
		}
	}
	switch {
	case n == 0:
		c.Undecided("pair:lid-order:nocall", aw.Pos(), "appendWorker no longer calls Active.AppendIDs")
	case fromCollector:
		c.Site(aw.Pos(), "AppendIDs is given the collector's own (filtered) id column")
	case ascending:
		c.Site(aw.Pos(), "AppendIDs is given SetMultiple's result; getIndexesOfIntercept keeps bulk order, so the filtered collector is in the same order")
	default:
		c.Violation("pair:lid-order", aw.Pos(), "AppendIDs is given the ids in bulk order while getIndexesOfIntercept no longer walks the bulk front to back (the filtered collector is in another order): the k-th new document of a partly repeated bulk gets the LID of one document and the tokens of another")
	}
}

// C20.10: a pooled fields filter does not carry the previous request's field list.
func pooledFilterIsReset(c *Ctx) {
	acq := c.Fn("storeapi.acquireDocFieldsFilter")
	rel := c.Fn("storeapi.releaseDocFieldsFilter")
	if acq == nil || rel == nil {
		return
	}
	st := FieldStore("storeapi.docFieldsFilter", "filter")
	acqAlways := true
	stores := InstrsIn(acq, st)
	for _, b := range acq.Blocks {
		ret, ok := b.Instrs[len(b.Instrs)-1].(*ssa.Return)
		if !ok {
			continue
		}
		dom := false
		for _, s := range stores {
			if Dominates(s, ret) {
				dom = true
			}
		}
		if !dom {
			acqAlways = false
		}
	}
	relClears := false
	for _, s := range InstrsIn(rel, st) {
		if IsNilConst(s.(*ssa.Store).Val) {
			for _, put := range CallsIn(rel, Callee("(*sync.Pool).Put")) {
				if Dominates(s, put.(ssa.Instruction)) {
					relClears = true
				}
			}
		}
	}
	switch {
	case acqAlways:
		c.Site(acq.Pos(), "acquireDocFieldsFilter sets the request's filter on every path")
	case relClears:
		c.Site(rel.Pos(), "acquireDocFieldsFilter may leave the filter as it is; releaseDocFieldsFilter clears it before the object goes back to the pool")
	default:
		c.Violation("pair:pooled-filter", acq.Pos(), "acquireDocFieldsFilter can hand out a pooled object without setting its filter, and releaseDocFieldsFilter does not clear it: a fetch without a fields pipe is projected by the field list of an earlier request")
	}
}

// C20.11: the decoder of a fields filter that is handed out exists.
func pooledDecoderExists(c *Ctx) {
	acq := c.Fn("storeapi.acquireDocFieldsFilter")
	if acq == nil {
		return
	}
	// acquire (re)creates the decoder exactly when the decoder is missing
	ownTest := false
	for _, s := range InstrsIn(acq, FieldStore("storeapi.docFieldsFilter", "decoder")) {
		for _, f := range FactsAtInstr(s) {
			bo, ok := f.Cond.(*ssa.BinOp)
			if !ok || (bo.Op == token.EQL) != f.Val || !(IsNilConst(bo.X) || IsNilConst(bo.Y)) {
				continue
			}
			other := bo.X
			if IsNilConst(bo.X) {
				other = bo.Y
			}
			if ValueIsField(other, "storeapi.docFieldsFilter", "decoder") {
				ownTest = true
			}
		}
		if len(FactsAtInstr(s)) == 0 {
			ownTest = true // unconditional
		}
	}
	nilled := ""
	for _, fn := range c.P.FuncsInPkg("storeapi") {
		for _, s := range InstrsIn(fn, FieldStore("storeapi.docFieldsFilter", "decoder")) {
			if IsNilConst(s.(*ssa.Store).Val) {
				nilled = FuncName(fn)
			}
		}
	}
	switch {
	case ownTest:
		c.Site(acq.Pos(), "acquireDocFieldsFilter creates the decoder whenever it is missing")
	case nilled == "":
		c.Site(acq.Pos(), "the decoder is created on first use (told by another field) and never dropped afterwards")
	default:
		c.Violation("pair:pooled-decoder", acq.Pos(), "acquireDocFieldsFilter decides by another field whether the decoder has to be created, and %s sets the decoder to nil: a pooled filter comes back with a buffer but no decoder, decoding fails and every document of later fetches is returned unfiltered", nilled)
	}
}

// C19.12: every partial result is decoded into an empty aggregation map.
func partialResultDecodedFresh(c *Ctx) {
	fs := c.Fn("(*fracmanager.AsyncSearcher).FetchSearchResult")
	um := c.Fn("(*seq.AggregatableSamples).UnmarshalJSON")
	if fs == nil || um == nil {
		return
	}
	// the decoder replaces the map unconditionally
	replaces := false
	for _, s := range InstrsIn(um, FieldStore("seq.AggregatableSamples", "SamplesByBin")) {
		if _, isMk := s.(*ssa.Store).Val.(*ssa.MakeMap); isMk {
			uncond := true
			for _, f := range FactsAtInstr(s) {
				if bo, ok := f.Cond.(*ssa.BinOp); ok && DerivesFrom(bo, func(v ssa.Value) bool { return ValueIsField(v, "seq.AggregatableSamples", "SamplesByBin") }) {
					uncond = false
				}
			}
			if uncond {
				replaces = true
			}
		}
	}
	// or the target is a new value for every file
	fresh := true
	hosts := []*ssa.Function{fs}
	for _, call := range CallsIn(fs, nil) {
		if h := StaticCallee(call); h != nil && h.Blocks != nil && PkgOf(h) == "fracmanager" {
			hosts = append(hosts, h)
		}
	}
	n := 0
	for _, h := range hosts {
		for _, call := range CallsIn(h, Callee("encoding/json.Unmarshal")) {
			tgt := Arg(call, 1)
			if mi, ok := tgt.(*ssa.MakeInterface); ok {
				tgt = mi.X
			}
			if !strings.HasSuffix(TypeStr(tgt.Type()), "seq.QPR") {
				continue
			}
			n++
			al, isAlloc := tgt.(*ssa.Alloc)
			l := InnermostLoop(call.(ssa.Instruction).Block())
			if l != nil && (!isAlloc || !l.Blocks[al.Block()]) {
				fresh = false
				// encoding/json decodes an object into an existing non-nil map by adding to it: every field of the
				// reused target that is a plain map (no decoder of its own) has to be replaced inside the loop
				if pt, ok := tgt.Type().Underlying().(*types.Pointer); ok {
					if st, ok := pt.Elem().Underlying().(*types.Struct); ok {
						for i := 0; i < st.NumFields(); i++ {
							f := st.Field(i)
							if _, isMap := f.Type().Underlying().(*types.Map); !isMap || hasMethod(f.Type(), "UnmarshalJSON") {
								continue
							}
							reset := false
							for _, sin := range InstrsIn(h, FieldStore("seq.QPR", f.Name())) {
								sst := sin.(*ssa.Store)
								_, mk := sst.Val.(*ssa.MakeMap)
								if l.Blocks[sst.Block()] && (mk || IsNilConst(sst.Val)) && Dominates(sst, call.(ssa.Instruction)) {
									reset = true
								}
							}
							for _, cc := range CallsIn(h, Callee("builtin.clear")) {
								ci := cc.(ssa.Instruction)
								if l.Blocks[ci.Block()] && Dominates(ci, call.(ssa.Instruction)) && ValueIsField(cc.Common().Args[0], "seq.QPR", f.Name()) {
									reset = true
								}
							}
							if reset {
								c.Site(call.Pos(), "the reused decode target's map field %s is replaced before every decode", f.Name())
							} else {
								c.Violation("pair:decode-fresh:map-field:"+f.Name(), call.Pos(), "FetchSearchResult decodes every partial result into the same QPR and does not replace its %s map before the decode: encoding/json adds to an existing map, so the buckets of every file read before are still in it and are merged again — the k-th of n files is counted n-k+1 times", f.Name())
							}
						}
					}
				}
			}
		}
	}
	switch {
	case n == 0:
		c.Undecided("pair:decode-fresh:nodecode", fs.Pos(), "FetchSearchResult no longer decodes partial results with json.Unmarshal")
	case fresh:
		c.Site(fs.Pos(), "every partial result is decoded into a new QPR")
	case replaces:
		c.Site(fs.Pos(), "the decode target is reused; AggregatableSamples.UnmarshalJSON replaces its map on every decode")
	default:
		c.Violation("pair:decode-fresh", fs.Pos(), "FetchSearchResult decodes every partial result into the same QPR, and AggregatableSamples.UnmarshalJSON keeps an existing map: bins of the previous fraction stay in it and are merged again, aggregation counts are inflated")
	}
}

// C19.13: the list of a request's fractions stays what it was, or nothing depends on it for finding the files.
func requestFractionsStable(c *Ctx) {
	ds := c.Fn("(*fracmanager.AsyncSearcher).doSearch")
	lp := c.Fn("(*fracmanager.AsyncSearcher).loadQPRPaths")
	if ds == nil || lp == nil {
		return
	}
	mutated := ""
	for _, call := range CallsIn(ds, nil) {
		n := CallName(call)
		if !(strings.HasPrefix(n, "slices.Delete") || strings.HasPrefix(n, "slices.Compact") || strings.HasPrefix(n, "slices.Sort") || strings.HasPrefix(n, "slices.Reverse") || n == "sort.Slice" || n == "sort.Sort") {
			continue
		}
		for _, a := range call.Common().Args {
			if DerivesFrom(a, func(v ssa.Value) bool { _, f, _, ok := FieldOf(v); return ok && f == "Fractions" }) {
				mutated = n
			}
		}
	}
	byList := c.P.Has(lp, func(in ssa.Instruction) bool {
		v, ok := in.(ssa.Value)
		if !ok {
			return false
		}
		_, f, _, okF := FieldOf(v)
		return okF && f == "Fractions"
	})
	switch {
	case mutated == "":
		c.Site(ds.Pos(), "doSearch leaves the request's fraction list as it is")
	case !byList:
		c.Site(ds.Pos(), "doSearch rearranges its fraction list in place (%s); the partial results are found by listing the directory", mutated)
	default:
		c.Violation("pair:request-fractions", ds.Pos(), "doSearch rearranges the request's fraction list in place (%s; the slice is shared with the stored request state and persisted with it), and loadQPRPaths looks for the partial results by that list: after a resumed search the files of the fractions that were done before the restart are no longer found", mutated)
	}
}

// C18.7: a cleaning pass frees what it was asked to free.
func cleaningReachesLastGeneration(c *Ctx) {
	ms := c.Fn("(*cache.Cleaner).markStale")
	nc := c.Fn("cache.NewCleaner")
	if ms == nil || nc == nil {
		return
	}
	// the fall-back that rotates and retires the last generation is decided by "not enough freed yet" alone
	plain := true
	rot := c.P.FindLifted(ms, CallSel(Callee("(*cache.Cleaner).rotate")))
	for _, r := range rot {
		for _, f := range r.Facts() {
			if DerivesFrom(f.Cond, func(v ssa.Value) bool { return ValueIsField(v, "cache.Cleaner", "maxGenSize") }) {
				plain = false
			}
		}
	}
	floor := false
	for _, s := range InstrsIn(nc, FieldStore("cache.Cleaner", "maxGenSize")) {
		if DerivesFrom(s.(*ssa.Store).Val, func(v ssa.Value) bool {
			cl, ok := v.(*ssa.Call)
			return ok && CallName(cl) == "builtin.max"
		}) {
			floor = true
		}
	}
	switch {
	case len(rot) == 0:
		c.Undecided("pair:last-generation:norotate", ms.Pos(), "markStale no longer rotates to retire the last generation")
	case plain:
		c.Site(ms.Pos(), "markStale retires the last generation whenever the older ones did not free enough")
	case !floor:
		c.Site(ms.Pos(), "markStale spares a last generation below maxGenSize; maxGenSize is a fraction of the limit, so such a generation cannot hold the cache over it")
	default:
		c.Violation("pair:last-generation", ms.Pos(), "markStale spares a last generation that has not reached maxGenSize, and NewCleaner puts a floor under maxGenSize: with a limit below the floor the only generation is over the limit yet never rotated or retired — the cleaning pass leaves the cache above its limit for good")
	}
}

// C18.8: an entry that was thrown out while it was loading is not accounted when it arrives.
func evictedLoadNotAccounted(c *Ctx) {
	cl := c.Fn("(*cache.Cache).Cleanup")
	sv := c.Fn("(*cache.Cache).save")
	if cl == nil || sv == nil {
		return
	}
	// every entry removed from the map is marked deleted
	marks := true
	var dels []ssa.Instruction
	for _, b := range cl.Blocks {
		for _, in := range b.Instrs {
			if call, ok := in.(*ssa.Call); ok && CallName(call) == "builtin.delete" {
				dels = append(dels, in)
			}
		}
	}
	stores := InstrsIn(cl, FieldStore("cache.entry", "deleted"))
	for _, d := range dels {
		l := InnermostLoop(d.Block())
		ok := false
		for _, s := range stores {
			if !Dominates(d, s) {
				continue
			}
			// on every way on from the removal (each back edge of the loop that follows the delete passes the store)
			every := true
			if l != nil {
				for _, pr := range l.Header.Preds {
					if l.Blocks[pr] && Dominates(d, pr.Instrs[len(pr.Instrs)-1]) && !Dominates(s, pr.Instrs[len(pr.Instrs)-1]) {
						every = false
					}
				}
			}
			if every {
				ok = true
			}
		}
		if !ok {
			marks = false
		}
	}
	rehomes := len(InstrsIn(sv, FieldStore("cache.entry", "gen"))) > 0
	switch {
	case len(dels) == 0:
		c.Undecided("pair:evicted-load:nodelete", cl.Pos(), "Cache.Cleanup no longer removes entries from the map")
	case marks:
		c.Site(cl.Pos(), "Cleanup marks every entry it removes as deleted (a load that finishes later saves nothing)")
	case !rehomes:
		c.Site(cl.Pos(), "Cleanup may leave a loading entry unmarked; save accounts it to the entry's own (stale, dropped) generation")
	default:
		c.Violation("pair:evicted-load", cl.Pos(), "Cleanup removes a still loading entry from the map without marking it deleted, and save moves an entry into the current generation before it accounts it: the evicted entry's bytes are added to a live generation although nothing in the map holds them")
	}
}

// C15.9: the sealed files are opened after the leftovers of the active fraction are gone, or lazily.
func sealedOpensAfterCleanup(c *Ctx) {
	ld := c.Fn("(*fracmanager.loader).load")
	ns := c.Fn("frac.NewSealed")
	if ld == nil || ns == nil {
		return
	}
	eager := c.P.HasCall(ns, Callee("(*frac.Sealed).openDocs"))
	before := true
	loads := c.P.FindLifted(ld, CallSel(Callee("(*fracmanager.loader).loadSealedFrac")))
	rms := c.P.FindLifted(ld, CallSel(Callee("fracmanager.removeFile")))
	for _, l := range loads {
		for _, r := range rms {
			if l.Top().Block() == r.Top().Block() || CanFollow(l.Top(), r.Top()) {
				if InnermostLoop(l.Top().Block()) != nil && !sameIterationAfter(l.Top(), r.Top()) {
					continue
				}
				before = false
			}
		}
	}
	switch {
	case !eager:
		c.Site(ns.Pos(), "NewSealed does not open the docs file (it is opened on first use, after the loader's cleanup)")
	case before:
		c.Site(ld.Pos(), "NewSealed opens the docs file at once; the loader removes the active leftovers before it loads the sealed fraction")
	default:
		c.Violation("pair:sealed-open-order", ld.Pos(), "NewSealed opens the docs file at once, and the loader removes the unsorted .docs of an interrupted release only after it has loaded the sealed fraction: the fraction holds the unsorted file open, the loader unlinks it, and sorted positions are served from the wrong file")
	}
}

// sameIterationAfter: b can run after a within one iteration of their common loop (not only via the back edge).
func sameIterationAfter(a, b ssa.Instruction) bool {
	if a.Block() == b.Block() {
		for _, in := range a.Block().Instrs {
			if in == a {
				return true
			}
			if in == b {
				return false
			}
		}
	}
	l := InnermostLoop(a.Block())
	seen := map[*ssa.BasicBlock]bool{}
	work := append([]*ssa.BasicBlock{}, a.Block().Succs...)
	for len(work) > 0 {
		x := work[len(work)-1]
		work = work[:len(work)-1]
		if seen[x] || (l != nil && x == l.Header) {
			continue
		}
		seen[x] = true
		if x == b.Block() {
			return true
		}
		work = append(work, x.Succs...)
	}
	return false
}

// C16.11: the hot store's refusal reaches the proxy in a form the proxy recognises.
func oldDataRefusalRecognised(c *Ctx) {
	ds := c.Fn("(*storeapi.GrpcV1).doSearch")
	ss := c.Fn("(*proxy/search.Ingestor).searchShard")
	if ds == nil || ss == nil {
		return
	}
	// store side: under earlierThanOldestFrac the answer is a response (nil error) carrying the code
	byCode := false
	for _, rp := range ReturnPaths(ds, ErrorResultIndex(ds)) {
		under := false
		for _, f := range rp.Facts {
			if cl, ok := f.Cond.(ssa.CallInstruction); ok && f.Val && strings.HasSuffix(CallName(cl), "earlierThanOldestFrac") {
				under = true
			}
		}
		if under && IsNilConst(rp.Val) && !IsNilConst(RetOperand(rp.Ret, 0)) {
			byCode = true
		}
	}
	want := constString(c.P.TypesPkg("consts"), "ErrIngestorQueryWantsOldData")
	_ = want
	// proxy side: the text of a replica's error is compared with the refusal's text
	byText := false
	for _, f := range WithClosures(ss) {
		for _, b := range f.Blocks {
			for _, in := range b.Instrs {
				bo, ok := in.(*ssa.BinOp)
				if !ok || bo.Op != token.EQL {
					continue
				}
				isRefusalText := func(v ssa.Value) bool {
					return DerivesFrom(v, func(x ssa.Value) bool {
						u, ok := x.(*ssa.UnOp)
						if !ok {
							return false
						}
						g, ok := u.X.(*ssa.Global)
						return ok && g.Name() == "ErrIngestorQueryWantsOldData"
					})
				}
				if isRefusalText(bo.X) || isRefusalText(bo.Y) {
					byText = true
				}
			}
		}
	}
	switch {
	case byCode:
		c.Site(ds.Pos(), "a hot store refuses a range it has dropped with a response code")
	case byText:
		c.Site(ss.Pos(), "a hot store refuses with an RPC error; searchShard recognises the refusal by its text")
	default:
		c.Violation("pair:old-data-refusal", ds.Pos(), "a hot store refuses a range it has dropped with an RPC error, and the proxy no longer recognises that refusal by its text: it is taken for an ordinary replica failure, the long-term stores are never asked, and the search fails or comes back partial")
	}
}

// C13.11: the blocks that may hold an exact value are all looked at, or they are selected by the whole value.
func exactValueBlocksComplete(c *Ctx) {
	se := c.Fn("(frac/token.Table).SelectEntries")
	gt := c.Fn("(*frac.sealedTokenIndex).GetTIDsByTokenExpr")
	if se == nil || gt == nil {
		return
	}
	var hint *ssa.Parameter
	for _, p := range se.Params {
		if ParamName(p) == "hint" {
			hint = p
		}
	}
	// whole: every comparison of SelectEntries that involves the hint uses the parameter itself, not a shortened copy
	whole := hint != nil
	// (a parameter that closures capture lives in a cell: its uses are loads, so "is the hint" is a derivation question)
	isHint := func(v ssa.Value) bool {
		return hint != nil && DerivesFrom(v, func(x ssa.Value) bool { return x == ssa.Value(hint) })
	}
	for _, f := range WithClosures(se) {
		for _, call := range CallsIn(f, Callee("frac/token.cut")) {
			if isHint(Arg(call, 0)) {
				whole = false
			}
		}
		for _, b := range f.Blocks {
			for _, in := range b.Instrs {
				if sl, ok := in.(*ssa.Slice); ok && sl.High != nil && isHint(sl.X) {
					if _, isStr := sl.X.Type().Underlying().(*types.Basic); isStr {
						whole = false
					}
				}
			}
		}
	}
	// all: what SelectEntries returned goes to the provider as it is
	all := true
	for _, np := range CallsIn(gt, Callee("frac/token.NewProvider")) {
		for _, a := range np.Common().Args {
			if sl, ok := a.(*ssa.Slice); ok && (sl.High != nil || sl.Low != nil) {
				all = false
			}
			if phi, ok := a.(*ssa.Phi); ok {
				for _, e := range phi.Edges {
					if sl, ok := e.(*ssa.Slice); ok && (sl.High != nil || sl.Low != nil) {
						all = false
					}
				}
			}
		}
	}
	switch {
	case all:
		c.Site(gt.Pos(), "every selected dictionary block is searched")
	case whole:
		c.Site(gt.Pos(), "only the first selected block is searched for an exact value; blocks are selected by the whole value")
	default:
		c.Violation("pair:exact-value-blocks", gt.Pos(), "only a part of the selected dictionary blocks is searched, and SelectEntries selects by a shortened hint: an exact value that shares its first bytes with the tokens of an earlier block is looked for in that block and not found")
	}
}

// C12.10: the pipe parser ends at the end of the input.
func pipesEndAtEndOfInput(c *Ctx) {
	pp := c.Fn("parser.parsePipes")
	fl := c.Fn("parser.parseFieldList")
	if pp == nil || fl == nil {
		return
	}
	isEnd := func(f Fact) bool {
		cl, ok := f.Cond.(ssa.CallInstruction)
		return ok && f.Val && strings.HasSuffix(CallName(cl), "lexer).IsEnd")
	}
	// parsePipes succeeds only when the lexer is at its end
	atEnd := true
	for _, rp := range ReturnPaths(pp, ErrorResultIndex(pp)) {
		if DefinitelyNonNil(rp.Val, rp.Facts) {
			continue
		}
		ok := false
		for _, f := range rp.Facts {
			if isEnd(f) {
				ok = true
			}
		}
		if !ok {
			atEnd = false
		}
	}
	// parseFieldList stops only in front of a pipe or at the end: its loop test is the lexer's keyword test including ""
	stops := false
	for _, l := range Loops(fl) {
		if iff, ok := l.Header.Instrs[len(l.Header.Instrs)-1].(*ssa.If); ok {
			if cl, isCall := iff.Cond.(*ssa.Call); isCall && strings.HasSuffix(CallName(cl), "lexer).IsKeywords") {
				stops = true
			}
		}
	}
	switch {
	case atEnd:
		c.Site(pp.Pos(), "parsePipes succeeds only at the end of the input")
	case stops:
		c.Site(pp.Pos(), "parsePipes stops at the first token that is not a pipe; a field list ends only in front of a pipe or at the end of the input")
	default:
		c.Violation("pair:pipes-end", pp.Pos(), "parsePipes can succeed with input left, and parseFieldList can stop at a token that is neither a pipe nor the end (an empty quoted string): ParseSeqQL then reaches its `lexer is not end` panic, which nothing on the store's search path recovers")
	}
}

// C14.11: a fraction list that is cut by its time borders is in sorted order when it is cut.
func filteredListKeepsOrder(c *Ctx) {
	fr := c.Fn("(fracmanager.List).FilterInRange")
	if fr == nil {
		return
	}
	isList := func(t types.Type) bool {
		sl, ok := t.Underlying().(*types.Slice)
		return ok && strings.HasSuffix(TypeStr(sl.Elem()), "frac.Fraction")
	}
	keeps := true
	for _, b := range fr.Blocks {
		for _, in := range b.Instrs {
			if st, ok := in.(*ssa.Store); ok {
				if ia, isIA := st.Addr.(*ssa.IndexAddr); isIA && isList(ia.X.Type()) {
					// an element moved to another position
					if _, fromElem := st.Val.(*ssa.UnOp); fromElem {
						keeps = false
					}
				}
			}
		}
	}
	// who cuts a filtered list by borders without sorting it again
	unsortedUse := ""
	cut := Callee("fracmanager.calcEnsuredIDsCount")
	for _, fn := range c.P.FuncsInPkg("fracmanager") {
		for _, use := range CallsIn(fn, cut) {
			for _, flt := range CallsIn(fn, Callee("(fracmanager.List).FilterInRange")) {
				if !CanFollow(flt.(ssa.Instruction), use.(ssa.Instruction)) {
					continue
				}
				sorted := false
				for _, srt := range CallsIn(fn, Callee("(fracmanager.List).Sort")) {
					if Dominates(flt.(ssa.Instruction), srt.(ssa.Instruction)) && Dominates(srt.(ssa.Instruction), use.(ssa.Instruction)) {
						sorted = true
					}
				}
				if !sorted {
					unsortedUse = FuncName(fn)
				}
			}
		}
	}
	switch {
	case keeps:
		c.Site(fr.Pos(), "FilterInRange keeps the order of the list")
	case unsortedUse == "":
		c.Site(fr.Pos(), "FilterInRange does not keep the order; every list that is cut by its borders is sorted after it was filtered")
	default:
		c.Violation("pair:filtered-order", fr.Pos(), "FilterInRange moves elements (the order of the list is lost), and %s filters the remaining fractions and then cuts by the border of the first one without sorting again: ids are declared final against the wrong fraction and newer documents are dropped from the result", unsortedUse)
	}
}

// C04.13 (= C14.12): the id list a sealed fraction is asked for is in full order, or findLIDs does not rely on it.
func findLIDsWindowJustified(c *Ctx) {
	fl := c.Fn("(*frac.sealedFetchIndex).findLIDs")
	so := c.Fn("fracmanager.sortIDs")
	if fl == nil || so == nil {
		return
	}
	// full order: sort.Sort/Stable on the id list (its Less is the (MID, RID) order), or a comparator that looks at RID
	full := false
	for _, call := range CallsIn(so, nil) {
		switch CallName(call) {
		case "sort.Sort", "sort.Stable":
			full = true
		case "sort.Slice", "sort.SliceStable", "slices.SortFunc", "slices.SortStableFunc":
			for _, a := range call.Common().Args {
				for _, o := range c.P.Origins(a, nil, 2, nil) {
					if mc, ok := o.Val.(*ssa.MakeClosure); ok {
						if cf, _ := mc.Fn.(*ssa.Function); cf != nil {
							readsRID := c.P.Has(cf, FieldLoad("seq.ID", "RID")) || c.P.HasCall(cf, Callee("seq.Less", "seq.LessOrEqual"))
							if readsRID {
								full = true
							}
						}
					}
				}
			}
		}
	}
	// per step: the lower end of the window is reset under a comparison of the id with its predecessor, and the upper end does not move
	perStep := false
	var ids *ssa.Parameter
	for _, p := range fl.Params {
		if _, isSlice := p.Type().Underlying().(*types.Slice); isSlice {
			ids = p
		}
	}
	adjacent := false
	for _, call := range CallsIn(fl, Callee("seq.Less", "seq.LessOrEqual")) {
		if !InLoop(call.(ssa.Instruction).Block()) || ids == nil {
			continue
		}
		elem := func(v ssa.Value) (ssa.Value, bool) {
			var idx ssa.Value
			found := DerivesFrom(v, func(x ssa.Value) bool {
				if ia, ok := x.(*ssa.IndexAddr); ok && ia.X == ssa.Value(ids) && idx == nil {
					idx = ia.Index
					return true
				}
				return false
			})
			return idx, found
		}
		i0, ok0 := elem(Arg(call, 0))
		i1, ok1 := elem(Arg(call, 1))
		if !ok0 || !ok1 {
			continue
		}
		// one index is the other minus one
		for _, pr := range [][2]ssa.Value{{i0, i1}, {i1, i0}} {
			if bo, ok := pr[1].(*ssa.BinOp); ok && bo.Op == token.SUB && SameValue(bo.X, pr[0]) {
				if k, isK := ConstInt(bo.Y); isK && k == 1 {
					adjacent = true
				}
			}
		}
	}
	upperFixed := true
	for _, bs := range CallsIn(fl, Callee("util.BinSearchInRange")) {
		hi := Arg(bs, 1)
		if phi, ok := hi.(*ssa.Phi); ok && InLoop(phi.Block()) {
			upperFixed = false
		}
	}
	perStep = adjacent && upperFixed
	switch {
	case perStep:
		c.Site(fl.Pos(), "findLIDs re-justifies its search window at every id by comparing it with its predecessor; the upper end never moves")
	case full:
		c.Site(fl.Pos(), "findLIDs relies on the order of the list; sortIDs delivers the ids in full (MID, RID) order")
	default:
		c.Violation("pair:findLIDs-order", fl.Pos(), "findLIDs narrows its search window on the strength of the list's overall order, and sortIDs orders the ids by MID only: ids that share a millisecond arrive in arbitrary RID order, the narrowed window skips stored documents, and they come back as not found from a sealed fraction")
	}
}

// C07.11: a sentinel error is recognised however it is wrapped.
func sentinelRecognised(c *Ctx) {
	n := 0
	for _, fn := range c.P.FuncsInPkg("fracmanager") {
		for _, call := range CallsIn(fn, Callee("errors.Is")) {
			isSentinel := func(v ssa.Value) *ssa.Global {
				u, ok := v.(*ssa.UnOp)
				if !ok || u.Op != token.MUL {
					return nil
				}
				g, _ := u.X.(*ssa.Global)
				return g
			}
			g0, g1 := isSentinel(Arg(call, 0)), isSentinel(Arg(call, 1))
			n++
			if g0 == nil || g1 != nil {
				c.Site(call.Pos(), "%s: errors.Is(err, sentinel)", FuncName(fn))
				continue
			}
			// errors.Is(sentinel, err): true only if err IS the sentinel. Fine as long as the producer hands the sentinel itself.
			wrapped := ""
			DerivesFrom(Arg(call, 1), func(v ssa.Value) bool {
				cl, ok := v.(*ssa.Call)
				if !ok {
					return false
				}
				cands := []*ssa.Function{StaticCallee(cl)}
				if cl.Call.IsInvoke() {
					cands = nil
					for _, f := range c.P.Funcs {
						if f.Name() == cl.Call.Method.Name() && f.Signature.Recv() != nil && c.P.InRepo(f) {
							cands = append(cands, f)
						}
					}
				}
				for _, h := range cands {
					if h == nil || h.Blocks == nil || ErrorResultIndex(h) < 0 {
						continue
					}
					for _, rp := range ReturnPaths(h, ErrorResultIndex(h)) {
						if wc, isCall := rp.Val.(*ssa.Call); isCall {
							for _, a := range wc.Call.Args {
								if DerivesFrom(a, func(x ssa.Value) bool { return isSentinel(x) == g0 }) {
									wrapped = FuncName(h)
								}
							}
						}
					}
				}
				return false
			})
			if wrapped == "" {
				c.Site(call.Pos(), "%s: errors.Is has the sentinel first; every producer returns the sentinel itself", FuncName(fn))
			} else {
				c.Violation("pair:sentinel:"+FuncName(fn)+":"+g0.Name(), call.Pos(), "%s tests errors.Is(%s, err) — the sentinel first, which matches only the bare sentinel — and %s returns that sentinel wrapped: the case is not recognised and falls through to the fatal sink (sealing a fraction that retention has just deleted stops the store)", FuncName(fn), g0.Name(), wrapped)
			}
		}
	}
	if n == 0 {
		c.Site(token.NoPos, "package fracmanager does not use errors.Is")
	}
}

// hasMethod: T or *T has a method of that name.
func hasMethod(t types.Type, name string) bool {
	for _, tt := range []types.Type{t, types.NewPointer(t)} {
		ms := types.NewMethodSet(tt)
		for i := 0; i < ms.Len(); i++ {
			if ms.At(i).Obj().Name() == name {
				return true
			}
		}
	}
	return false
}

// containersWithoutSentinels: the places where non-test repo code creates a seq.SamplesContainer other than through
// NewSamplesContainers and without assigning both Min and Max on the new value (or a Total: such a container is
// not an empty operand).
func containersWithoutSentinels(c *Ctx) []ssa.Instruction {
	var out []ssa.Instruction
	for _, fn := range c.P.Funcs {
		if !c.P.InRepo(fn) {
			continue
		}
		for _, b := range fn.Blocks {
			for _, in := range b.Instrs {
				al, ok := in.(*ssa.Alloc)
				if !ok || !strings.HasSuffix(TypeStr(al.Type()), "*seq.SamplesContainer") && TypeStr(al.Type()) != "*seq.SamplesContainer" {
					continue
				}
				if pt, ok := al.Type().Underlying().(*types.Pointer); !ok || !strings.HasSuffix(TypeStr(pt.Elem()), "seq.SamplesContainer") {
					continue
				}
				set := map[string]bool{}
				for _, r := range *al.Referrers() {
					fa, ok := r.(*ssa.FieldAddr)
					if !ok {
						continue
					}
					_, fld, _, okF := FieldOf(fa)
					if !okF {
						continue
					}
					for _, rr := range *fa.Referrers() {
						if st, ok := rr.(*ssa.Store); ok && st.Addr == ssa.Value(fa) {
							set[fld] = true
						}
					}
				}
				// a container created with a Total of its own is not an empty one: the rule is about operands with Total == 0
				if !(set["Min"] && set["Max"]) && !set["Total"] {
					out = append(out, al)
				}
			}
		}
	}
	return out
}
