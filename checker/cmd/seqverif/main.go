// seqverif decides structural necessary conditions of the seq-db properties
// by static analysis of /repo's current working tree.
package main

import (
	"encoding/json"
	"flag"
	"fmt"
	"os"
	"os/exec"
	"path/filepath"
	"regexp"
	"sort"
	"strconv"
	"strings"
	"sync"
	"time"

	"seqverif/internal/kit"
	"seqverif/internal/props"
)

type knownFinding struct {
	Property string `json:"property"`
	Key      string `json:"key"`
	Status   string `json:"status"` // known | fixed
	Commit   string `json:"commit,omitempty"`
	What     string `json:"what"`
	Line     string `json:"line,omitempty"`
}

type knownFile struct {
	Findings []knownFinding `json:"findings"`
}

func main() {
	var (
		prop      = flag.String("property", "", "property id (C01..C20) or 'all'")
		tier      = flag.String("tier", "quick", "quick|thorough")
		repo      = flag.String("repo", "/repo", "repository root")
		verif     = flag.String("verif", "/verif", "verif root (evidence, known findings)")
		replay    = flag.String("replay", "", "violation report to re-run")
		list      = flag.Bool("list", false, "list obligations")
		nowrite   = flag.Bool("n", false, "do not write evidence")
		lockstats = flag.String("lockstats", "", "discovery aid: comma-separated repo packages whose mutex-owning structs are profiled")
		control   = flag.String("control", "", "internal: run the property's obligations on the tree with this patch applied as an overlay and print the violation keys")
		dumpAnch  = flag.Bool("dump-anchors", false, "write <verif>/anchors.json (fingerprints of every function of the tree, used to follow renames)")
	)
	flag.Parse()
	if _, err := os.Stat(filepath.Join(*verif, "anchors.json")); err == nil && !*dumpAnch {
		kit.AnchorTablePath = filepath.Join(*verif, "anchors.json")
	}
	if *dumpAnch {
		prog, err := kit.Load(*repo, nil, nil)
		if err != nil {
			fmt.Println(err)
			os.Exit(2)
		}
		if err := prog.DumpAnchors(filepath.Join(*verif, "anchors.json")); err != nil {
			fmt.Println(err)
			os.Exit(2)
		}
		fmt.Println("anchors.json written:", len(prog.Funcs), "functions")
		return
	}

	if *control != "" {
		os.Exit(runControl(*repo, *verif, *prop, *control))
	}
	if *lockstats != "" {
		prog, err := kit.Load(*repo, nil, nil)
		if err != nil {
			fmt.Println(err)
			os.Exit(2)
		}
		props.LockStats(prog, strings.Split(*lockstats, ","))
		return
	}
	if *replay != "" {
		data, err := os.ReadFile(*replay)
		if err != nil {
			fmt.Println("cannot read replay file:", err)
			os.Exit(2)
		}
		var v kit.Viol
		if err := json.Unmarshal(data, &v); err != nil {
			fmt.Println("bad replay file:", err)
			os.Exit(2)
		}
		*prop = v.Prop
		os.Exit(run(*repo, *verif, []string{v.Prop}, *tier, v.Ob, true, *list))
	}
	if *prop == "" {
		fmt.Println("usage: seqverif -property Cxx [-tier quick|thorough]")
		os.Exit(2)
	}
	ids := []string{*prop}
	if *prop == "all" {
		ids = props.IDs()
	}
	os.Exit(run(*repo, *verif, ids, *tier, "", *nowrite, *list))
}

// expectedSilent: seeded changes that are documented as outside the claimed clauses (DESIGN.md §9).
var expectedSilent = map[string]int{
	"C08": 1, // C08-m10: word-at-a-time scan in util.Bitmask.HasBitsIn drops the last 8 middle bytes — bitmask arithmetic, not decided (DESIGN.md §5, §9)
	"C12": 1, // C12-m15: balanced OR tree for long in(...) lists drops the odd leftover of a level — index arithmetic on slice halves, not decided (DESIGN.md §9)
}

// controlPar: control child processes run at a time (each ≈ 1 GB).
const controlPar = 6

// overlayFromPatch applies a unified diff to copies of the files it touches
// (in a scratch directory that is removed again) and returns the patched
// contents keyed by their path under repo.
func overlayFromPatch(repo, patch string) (map[string][]byte, error) {
	data, err := os.ReadFile(patch)
	if err != nil {
		return nil, err
	}
	var files []string
	created := map[string]bool{} // files the patch adds ("--- /dev/null"): nothing to copy, the overlay adds them to their package
	lines := strings.Split(string(data), "\n")
	for i, l := range lines {
		if strings.HasPrefix(l, "+++ b/") {
			f := strings.TrimPrefix(l, "+++ b/")
			files = append(files, f)
			if i > 0 && strings.HasPrefix(lines[i-1], "--- /dev/null") {
				created[f] = true
			}
		}
	}
	if len(files) == 0 {
		return nil, fmt.Errorf("no files in patch")
	}
	tmp, err := os.MkdirTemp("", "seqverif-ctl-")
	if err != nil {
		return nil, err
	}
	defer os.RemoveAll(tmp)
	for _, f := range files {
		if created[f] {
			if _, err := os.Stat(filepath.Join(repo, f)); err == nil {
				return nil, fmt.Errorf("patch no longer applies: %s exists already", f)
			}
			continue
		}
		src, err := os.ReadFile(filepath.Join(repo, f))
		if err != nil {
			return nil, fmt.Errorf("file %s of the patch is gone", f)
		}
		dst := filepath.Join(tmp, f)
		os.MkdirAll(filepath.Dir(dst), 0o755)
		if err := os.WriteFile(dst, src, 0o644); err != nil {
			return nil, err
		}
	}
	cmd := exec.Command("git", "apply", "--unsafe-paths", patch)
	cmd.Dir = tmp
	cmd.Env = append(os.Environ(), "GIT_CEILING_DIRECTORIES="+filepath.Dir(tmp), "GIT_DIR=/nonexistent")
	if out, err := cmd.CombinedOutput(); err != nil {
		return nil, fmt.Errorf("patch no longer applies: %s", strings.TrimSpace(string(out)))
	}
	ov := map[string][]byte{}
	for _, f := range files {
		b, err := os.ReadFile(filepath.Join(tmp, f))
		if err != nil {
			return nil, err
		}
		ov[filepath.Join(repo, f)] = b
	}
	return ov, nil
}

// runControl is the child side of a control: KEY lines for every violation that is not a listed known finding.
func runControl(repo, verif, id, patch string) int {
	info := props.Get(id)
	if info == nil {
		fmt.Println("SKIP\tunknown property")
		return 0
	}
	ov, err := overlayFromPatch(repo, patch)
	if err != nil {
		fmt.Printf("SKIP\t%v\n", err)
		return 0
	}
	pm, err := kit.Load(repo, ov, nil)
	if err != nil {
		fmt.Println("SKIP\tdoes not type-check")
		return 0
	}
	var kf knownFile
	if data, err := os.ReadFile(filepath.Join(verif, "known_findings.json")); err == nil {
		json.Unmarshal(data, &kf)
	}
	for _, ob := range info.Obs() {
		r := pm.Run(ob)
		for _, v := range r.Viols {
			known := false
			for _, k := range kf.Findings {
				if k.Property == id && k.Key == v.Key && k.Status == "known" {
					known = true
				}
			}
			if !known {
				fmt.Printf("KEY\t%s\n", v.Key)
			}
		}
	}
	fmt.Println("DONE")
	return 0
}

type controlResult struct {
	name, patch string
	keys        []string
	skipped     string
}

// runControls runs one child per patch, at most par at a time.
func runControls(repo, verif, id string, patches []string, par int) []controlResult {
	out := make([]controlResult, len(patches))
	sem := make(chan struct{}, par)
	var wg sync.WaitGroup
	self, err := os.Executable()
	if err != nil {
		self = os.Args[0]
	}
	for i, patch := range patches {
		wg.Add(1)
		go func(i int, patch string) {
			defer wg.Done()
			sem <- struct{}{}
			defer func() { <-sem }()
			res := controlResult{name: filepath.Base(filepath.Dir(patch)), patch: patch}
			cmd := exec.Command(self, "-property", id, "-control", patch, "-repo", repo, "-verif", verif)
			data, err := cmd.Output()
			done := false
			for _, l := range strings.Split(string(data), "\n") {
				switch {
				case strings.HasPrefix(l, "KEY\t"):
					res.keys = append(res.keys, strings.TrimPrefix(l, "KEY\t"))
				case strings.HasPrefix(l, "SKIP\t"):
					res.skipped = strings.TrimPrefix(l, "SKIP\t")
					done = true
				case l == "DONE":
					done = true
				}
			}
			if err != nil || !done {
				res.skipped = fmt.Sprintf("control process failed: %v", err)
			}
			out[i] = res
		}(i, patch)
	}
	wg.Wait()
	return out
}

var unsafeRe = regexp.MustCompile(`[^A-Za-z0-9_.-]+`)

func run(repo, verif string, ids []string, tier, onlyOb string, nowrite, list bool) int {
	start := time.Now()
	seed := 0
	if s := os.Getenv("VERIF_SEED"); s != "" {
		seed, _ = strconv.Atoi(s)
	}
	for _, id := range ids {
		if props.Get(id) == nil {
			fmt.Printf("unknown property %s (registered: %v)\n", id, props.IDs())
			return 2
		}
	}
	prog, err := kit.Load(repo, nil, nil)
	if err != nil {
		fmt.Println("LOAD FAILED:", err)
		for _, id := range ids {
			fmt.Printf("VIOLATION property=%s replay=%s\n", id, "load-failure")
		}
		return 1
	}
	loadS := time.Since(start).Seconds()
	fmt.Printf("analysed: %d repo packages, %d repo functions with bodies (load+SSA %.1fs)\n", len(prog.Pkgs), len(prog.Funcs), loadS)
	for _, r := range prog.Renames {
		fmt.Printf("  anchor follows a rename: %s\n", r)
	}

	var kf knownFile
	if data, err := os.ReadFile(filepath.Join(verif, "known_findings.json")); err == nil {
		if err := json.Unmarshal(data, &kf); err != nil {
			fmt.Println("known_findings.json is not valid JSON:", err)
			return 2
		}
	}
	exit := 0
	for _, id := range ids {
		t0 := time.Now()
		info := props.Get(id)
		obs := info.Obs()
		var results []*kit.ObResult
		for _, ob := range obs {
			if ob.Tier == "thorough" && tier != "thorough" {
				continue
			}
			if onlyOb != "" && ob.ID != onlyOb {
				continue
			}
			if list {
				fmt.Printf("%s [%s] %s\n", ob.ID, ob.Engine, ob.Desc)
				continue
			}
			results = append(results, prog.Run(ob))
		}
		if list {
			continue
		}
		nviol, nknown, sites, nontrivial, discharged := 0, 0, 0, 0, 0
		var samples []any
		var violOut []kit.Viol
		counters := map[string]int{}
		vdir := filepath.Join(verif, "evidence", "violations", id)
		if !nowrite {
			os.RemoveAll(vdir)
		}
		for _, r := range results {
			sites += len(r.Sites)
			if len(r.Sites) > 0 {
				nontrivial++
			}
			for k, v := range r.Counter {
				counters[r.Ob.ID+":"+k] += v
			}
			unlisted := 0
			for i := range r.Viols {
				v := &r.Viols[i]
				for _, k := range kf.Findings {
					if k.Property == id && k.Key == v.Key && k.Status == "known" {
						v.Known = true
					}
				}
				if v.Known {
					nknown++
					fmt.Printf("KNOWN-FINDING: property=%s %s at %s: %s\n", id, v.Key, v.Pos, v.Msg)
				} else {
					unlisted++
					nviol++
					path := filepath.Join(vdir, unsafeRe.ReplaceAllString(v.Key, "_")+".json")
					if len(filepath.Base(path)) > 200 {
						path = filepath.Join(vdir, unsafeRe.ReplaceAllString(v.Key, "_")[:180]+".json")
					}
					if !nowrite {
						os.MkdirAll(vdir, 0o755)
						data, _ := json.MarshalIndent(v, "", " ")
						os.WriteFile(path, data, 0o644)
					}
					fmt.Printf("  %s [%s] %s at %s\n      rule: %s\n      %s\n", strings.ToUpper(v.Kind), v.Engine, v.Key, v.Pos, v.Desc, v.Msg)
					fmt.Printf("VIOLATION property=%s replay=%s\n", id, path)
				}
				violOut = append(violOut, *v)
			}
			if unlisted == 0 && len(r.Viols) == 0 {
				discharged++
			}
			smp := map[string]any{"obligation": r.Ob.ID, "engine": r.Ob.Engine, "rule": r.Ob.Desc, "matched": len(r.Sites), "violations": len(r.Viols)}
			var ss []kit.Site
			for i, s := range r.Sites {
				if i >= 6 {
					break
				}
				ss = append(ss, s)
			}
			smp["constructs"] = ss
			if len(r.Notes) > 0 {
				smp["notes"] = r.Notes
			}
			samples = append(samples, smp)
			status := "discharged"
			if len(r.Viols) > 0 {
				status = fmt.Sprintf("%d violation(s), %d unlisted", len(r.Viols), unlisted)
			}
			fmt.Printf("  %-8s %-22s sites=%-4d %s\n", r.Ob.ID, r.Ob.Engine, len(r.Sites), status)
		}
		// thorough tier: second build configuration and positive controls
		var controls []map[string]any
		if tier == "thorough" && onlyOb == "" {
			// (1) the same obligations on the CGO-free build configuration (zstd/purego.go instead of zstd/cgo.go)
			if p2, err := kit.Load(repo, nil, []string{"CGO_ENABLED=0"}); err != nil {
				fmt.Printf("  thorough: CGO_ENABLED=0 configuration does not load: %v\n", err)
				nviol++
				fmt.Printf("VIOLATION property=%s replay=%s\n", id, "load-failure-cgo0")
			} else {
				bad := 0
				for _, ob := range obs {
					r := p2.Run(ob)
					for _, v := range r.Viols {
						known := false
						for _, k := range kf.Findings {
							if k.Property == id && k.Key == v.Key && k.Status == "known" {
								known = true
							}
						}
						if !known {
							bad++
							fmt.Printf("  %s [CGO_ENABLED=0] %s at %s: %s\n", strings.ToUpper(v.Kind), v.Key, v.Pos, v.Msg)
						}
					}
				}
				fmt.Printf("  thorough: second build configuration CGO_ENABLED=0: %d packages, %d unlisted violations\n", len(p2.Pkgs), bad)
				controls = append(controls, map[string]any{"control": "build configuration CGO_ENABLED=0", "unlisted_violations": bad})
				if bad > 0 {
					nviol += bad
					fmt.Printf("VIOLATION property=%s replay=%s\n", id, "cgo0-configuration")
				}
			}
			// (2) positive controls: every confirmed seeded change of this property, applied as an overlay, must be reported
			fired, silent, skipped := 0, 0, 0
			seeds, _ := filepath.Glob(filepath.Join(verif, "seeded", id+"-*", "patch.diff"))
			sort.Strings(seeds)
			onBase := func(key string) bool {
				for _, bv := range violOut {
					if bv.Key == key {
						return true
					}
				}
				return false
			}
			for _, res := range runControls(repo, verif, id, seeds, controlPar) {
				if res.skipped != "" {
					skipped++
					fmt.Printf("  control %s: skipped (%s)\n", res.name, res.skipped)
					controls = append(controls, map[string]any{"control": "seeded change " + res.name, "result": "skipped: " + res.skipped})
					continue
				}
				var by []string
				for _, k := range res.keys {
					// a report that also exists on the unchanged tree does not count
					if !onBase(k) {
						by = append(by, k)
					}
				}
				if len(by) > 0 {
					fired++
					fmt.Printf("  control %s: reported by %s\n", res.name, by[0])
					controls = append(controls, map[string]any{"control": "seeded change " + res.name, "result": "reported", "by": by})
				} else {
					silent++
					fmt.Printf("  control %s: NOT reported\n", res.name)
					controls = append(controls, map[string]any{"control": "seeded change " + res.name, "result": "not reported"})
				}
			}
			fmt.Printf("  thorough: %d seeded controls reported, %d not reported, %d skipped\n", fired, silent, skipped)
			counters["controls:reported"] = fired
			counters["controls:not_reported"] = silent
			counters["controls:skipped"] = skipped
			expectSilent := expectedSilent[id]
			if silent > expectSilent {
				nviol++
				fmt.Printf("  CONTROL FAILURE: %d seeded change(s) of %s are no longer reported (expected at most %d misses, listed in DESIGN.md §9)\n", silent, id, expectSilent)
				fmt.Printf("VIOLATION property=%s replay=%s\n", id, "positive-control")
			}
		}
		// (3) negative controls: behaviour-preserving refactorings of the files this property's
		// obligations have sites in, applied as overlays, must not add a report
		if tier == "thorough" && onlyOb == "" {
			siteFiles := map[string]bool{}
			for _, r := range results {
				for _, s := range r.Sites {
					if i := strings.LastIndex(s.Pos, ":"); i > 0 {
						siteFiles[s.Pos[:i]] = true
					}
				}
			}
			refs, _ := filepath.Glob(filepath.Join(verif, "refactors", "*", "patch.diff"))
			// the single-site halves of the two-site seeded changes: the property holds on each of them
			halves, _ := filepath.Glob(filepath.Join(verif, "halves", "*", "patch.diff"))
			refs = append(refs, halves...)
			sort.Strings(refs)
			quiet, noisy, skippedR := 0, 0, 0
			var relevant []string
			for _, patch := range refs {
				data, _ := os.ReadFile(patch)
				for _, l := range strings.Split(string(data), "\n") {
					if strings.HasPrefix(l, "+++ b/") && siteFiles[strings.TrimPrefix(l, "+++ b/")] {
						relevant = append(relevant, patch)
						break
					}
				}
			}
			for _, res := range runControls(repo, verif, id, relevant, controlPar) {
				if res.skipped != "" {
					skippedR++
					controls = append(controls, map[string]any{"control": "refactoring " + res.name, "result": "skipped: " + res.skipped})
					continue
				}
				var by []string
				for _, k := range res.keys {
					base := false
					for _, bv := range violOut {
						if bv.Key == k {
							base = true
						}
					}
					if !base {
						by = append(by, k)
					}
				}
				if len(by) == 0 {
					quiet++
					controls = append(controls, map[string]any{"control": "refactoring " + res.name, "result": "silent (as required)"})
				} else {
					noisy++
					fmt.Printf("  control %s (behaviour-preserving refactoring): FALSE ALARM %s\n", res.name, by[0])
					controls = append(controls, map[string]any{"control": "refactoring " + res.name, "result": "false alarm", "by": by})
				}
			}
			fmt.Printf("  thorough: %d refactoring controls silent, %d raised a false alarm, %d skipped\n", quiet, noisy, skippedR)
			counters["refactorings:silent"] = quiet
			counters["refactorings:false_alarm"] = noisy
			counters["refactorings:skipped"] = skippedR
			if noisy > 0 {
				nviol++
				fmt.Printf("  CONTROL FAILURE: a rule of %s fires on a behaviour-preserving refactoring — the rule is too syntactic and its reports cannot be trusted\n", id)
				fmt.Printf("VIOLATION property=%s replay=%s\n", id, "negative-control")
			}
		}
		wall := time.Since(t0).Seconds() + loadS
		fmt.Printf("%s: obligations=%d discharged=%d constructs=%d unlisted-violations=%d known-findings=%d (%.1fs)\n",
			id, len(results), discharged, sites, nviol, nknown, wall)
		if nviol > 0 {
			exit = 1
		}
		if nowrite {
			continue
		}
		sort.Slice(violOut, func(i, j int) bool { return violOut[i].Key < violOut[j].Key })
		ev := map[string]any{
			"property_id": id,
			"tier":        tier,
			"seed":        seed,
			"level":       "other",
			"coverage": map[string]any{
				"explanation":         info.Explanation,
				"obligations":         len(results),
				"discharged":          discharged,
				"evaluations":         sites,
				"distinct_nontrivial": nontrivial,
				"rule":                "one evaluation = one construct (call site, return, store, switch, table row, abstract file-set state) a rule was applied to; an obligation is non-trivial when it matched at least one construct on this run",
				"samples":             samples,
				"checker_cmd":         fmt.Sprintf("/verif/bin/seqverif -property %s -tier %s -repo %s", id, tier, repo),
				"trusted_base":        []string{"go/types and go/ssa (golang.org/x/tools v0.29.0)", "dominator/post-dominator computation", "frozen tables in /verif/checker/internal/props (one reason per row)", "dependency summaries listed in assumptions"},
				"packages_analysed":   len(prog.Pkgs),
				"functions_analysed":  len(prog.Funcs),
				"counters":            counters,
				"renamed_anchors":     prog.Renames,
				"controls":            controls,
				"exhaustive":          false,
			},
			"assumptions":    info.Assumptions,
			"wall_s":         wall,
			"violations":     nviol,
			"known_findings": nknown,
			"violation_list": violOut,
		}
		os.MkdirAll(filepath.Join(verif, "evidence"), 0o755)
		data, _ := json.MarshalIndent(ev, "", " ")
		if err := os.WriteFile(filepath.Join(verif, "evidence", id+".json"), data, 0o644); err != nil {
			fmt.Println("cannot write evidence:", err)
			return 2
		}
	}
	return exit
}
