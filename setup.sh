#!/bin/bash
# Builds the checker offline from /verif/checker (x/tools vendored).
set -e
cd "$(dirname "$0")"
export GOPROXY=off GOFLAGS=-mod=vendor
unset GOWORK GOSUMDB GOTOOLCHAIN
mkdir -p bin evidence
build() { (cd checker && "$@" build -o ../bin/seqverif ./cmd/seqverif); }
if ! build go 2>/tmp/seqverif-build.$$; then
  cat /tmp/seqverif-build.$$ >&2
  echo "default go failed; falling back to go1.26.8" >&2
  export PATH=/opt/veriftools/go1.26.8/bin:$PATH GOTOOLCHAIN=local
  build go
fi
rm -f /tmp/seqverif-build.$$
echo "built $(pwd)/bin/seqverif"
