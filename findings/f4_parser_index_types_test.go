package parser

import (
	"testing"

	"github.com/ozontech/seq-db/seq"
)

// F4: a query that names a field mapped as object / tags / nested / exists reached panic("unknown index type")
// in both parsers; the store's search handler has no recovery interceptor, so one query killed the store.
func TestF4QueryOnNonValueIndexTypesReturnsError(t *testing.T) {
	for _, tt := range []seq.TokenizerType{seq.TokenizerTypeObject, seq.TokenizerTypeTags, seq.TokenizerTypeNested, seq.TokenizerTypeExists} {
		mapping := seq.Mapping{"f": seq.NewSingleType(tt, "", 0)}
		for _, q := range []string{`f:abc`, `f:"a b"`, `f:in(a,b)`, `not f:x and f:y`} {
			func() {
				defer func() {
					if p := recover(); p != nil {
						t.Errorf("ParseSeqQL(%q) with index type %d panicked: %v", q, tt, p)
					}
				}()
				if _, err := ParseSeqQL(q, mapping); err == nil {
					t.Errorf("ParseSeqQL(%q) with index type %d: expected an error", q, tt)
				}
			}()
		}
		for _, q := range []string{`f:abc`, `f:"a b"`, `NOT f:x AND f:y`} {
			func() {
				defer func() {
					if p := recover(); p != nil {
						t.Errorf("ParseQuery(%q) with index type %d panicked: %v", q, tt, p)
					}
				}()
				if _, err := ParseQuery(q, mapping); err == nil {
					t.Errorf("ParseQuery(%q) with index type %d: expected an error", q, tt)
				}
			}()
		}
	}
}
