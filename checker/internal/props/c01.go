package props

import (
	"go/token"
	"strings"

	"golang.org/x/tools/go/ssa"

	. "seqverif/internal/kit"
)

func init() {
	register(&PropInfo{
		ID:          "C01",
		Title:       "Acknowledged bulks survive any crash/restart history",
		Explanation: "Decides structural necessary conditions of durability on every path of the write/ack chain: docs block written and synced before its meta block; write < enqueue < wait-for-sync in FileWriter.Write; queue snapshot < Sync < notify in syncLoop; at every hop from GrpcV1.Bulk down to (*os.File).Sync a success return is dominated by the callee's err==nil; fsync can be disabled only from the command-line flag; Replay treats io.EOF as end of log, returns other errors, and re-bases/truncates the files to the replayed positions so that the next append lands where the next replay expects it; the loader never reaches a fatal sink on a crash-reachable file set (shared FILESTATE engine). NOT decided: byte-level integrity of blocks, torn-write contents, equality of the replayed index with the pre-crash one, zstd round trips.",
		Assumptions: []string{
			"every durable effect goes through (*os.File).WriteAt/Sync/Truncate",
			"fmt.Errorf/errors.New/status.Error return non-nil errors",
			"loads of the same struct field in one function denote the same object (no aliasing re-assignment between them)",
		},
		Obs: c01,
	})
}

const (
	fwWrite   = "(*frac.FileWriter).Write"
	awWrite   = "(*frac.ActiveWriter).Write"
	actAppend = "(*frac.Active).Append"
)

// recvOfQueued: v is `<-ch` where ch was stored into the FileWriter queue in fn.
func recvOfQueued(fn *ssa.Function, v ssa.Value, enq Sel) bool {
	u, ok := v.(*ssa.UnOp)
	if !ok || u.Op != token.ARROW {
		return false
	}
	ch := u.X
	for _, st := range InstrsIn(fn, enq) {
		if DerivesFrom(st.(*ssa.Store).Val, func(x ssa.Value) bool { return x == ch }) {
			return true
		}
	}
	return false
}

func c01() []*Ob {
	docsWrite := OnField(Callee(fwWrite), "frac.ActiveWriter", "docs")
	metaWrite := OnField(Callee(fwWrite), "frac.ActiveWriter", "meta")
	return []*Ob{
		{Prop: "C01", ID: "C01.13", Engine: "PAIR(two sites)", Floor: 1,
			Desc:  "a fraction that is kept after replay has had its crash leftovers cut: truncateTails cuts both files on every success path, or — if it skips a fraction that replayed to nothing — the loader removes every such fraction (the removal in loader.load is decided by DocsTotal == 0 alone). Neither alone is required; with both relaxed, a fresh fraction whose first bulk was torn is reused with the torn meta block and the orphan docs block in it, and the replay after the next restart misreads the acknowledged bulks appended behind them",
			Check: func(c *Ctx) { keptFractionIsTruncated(c) }},
		{Prop: "C01", ID: "C01.12", Engine: "DOM(truncate)", Floor: 1,
			Desc:  "the log is cut only where it was read to its end: in Active.Replay every truncation of .docs/.meta (truncateTails, or File.Truncate through whatever helper) is reached only on paths on which ReadDocBlock answered io.EOF — a replay that is left for another reason (the start-up context was cancelled by SIGTERM) and then cuts both files at the position it happened to reach destroys acknowledged bulks; the damage shows at the following start",
			Check: func(c *Ctx) { truncateOnlyAtEOF(c) }},
		{Prop: "C01", ID: "C01.11", Engine: "FIELDS+PROV", Floor: 4,
			Desc:  "a re-sent bulk is indexed under its own tokens: when a bulk repeats ids the fraction already holds, metaDataCollector.Filter rebuilds every per-document column and the token offset table as an exclusive running sum (shared rule with C17.2) — a client that re-sends an unacknowledged batch together with new documents after a crash otherwise gets the new documents acknowledged, fetchable by id, and attached to another document's tokens, for good",
			Check: shared("C17.2")},
		{Prop: "C01", ID: "C01.1", Engine: "ORDER+DOM", Floor: 2,
			Desc: "ActiveWriter.Write: the docs block is written (and synced) before the meta block; the meta write is only reached when the docs write returned err==nil; SetExt1/SetExt2 on the meta header precede the meta write",
			Check: func(c *Ctx) {
				fn := c.Fn(awWrite)
				if fn == nil {
					return
				}
				MustPrecede(c, fn, docsWrite, "docs.Write", metaWrite, "meta.Write")
				for _, mw := range CallsIn(fn, metaWrite) {
					if GuardedByNilErr(mw.(ssa.Instruction), docsWrite) {
						c.Site(mw.Pos(), "meta.Write guarded by docs.Write err==nil")
					} else {
						c.Violation("dom:"+awWrite+":meta.Write-needs-docs-ok", mw.Pos(), "meta block can be written although the docs write failed (a meta block pointing at missing documents would be replayed)")
					}
				}
				MustPrecede(c, fn, Callee("(disk.DocBlock).SetExt1"), "SetExt1(len(docs))", metaWrite, "meta.Write")
				MustPrecede(c, fn, Callee("(disk.DocBlock).SetExt2"), "SetExt2(offset)", metaWrite, "meta.Write")
				// SetExt2's argument is the offset returned by the docs write
				for _, s := range CallsIn(fn, Callee("(disk.DocBlock).SetExt2")) {
					ok := DerivesFrom(Arg(s, 0), func(v ssa.Value) bool {
						e, isE := v.(*ssa.Extract)
						if !isE {
							return false
						}
						cl, isC := e.Tuple.(ssa.CallInstruction)
						return isC && docsWrite(cl) && e.Index == 0
					})
					if ok {
						c.Site(s.Pos(), "SetExt2 argument is the offset returned by docs.Write")
					} else {
						c.Violation("prov:"+awWrite+":SetExt2-arg", s.Pos(), "the docs offset stored in the meta header is not the offset returned by the docs write")
					}
				}
			}},
		{Prop: "C01", ID: "C01.9", Engine: "LOCK", Floor: 1,
			Desc: "one bulk, one hold: ActiveWriter.Write performs the docs write and the meta write under a single hold of the writer's mutex, so docs blocks and meta blocks are appended in the same order (Replay derives docs offsets by summing Ext1 in meta order; a crash between two bulks' meta writes must not leave an orphan docs block in the middle of the file)",
			Check: func(c *Ctx) {
				fn := c.Fn(awWrite)
				if fn == nil {
					return
				}
				li := Locksets(fn, nil)
				top := func(l Lifted) ssa.Instruction {
					if len(l.Via) > 0 {
						return l.Via[0].(ssa.Instruction)
					}
					return l.In
				}
				dw := c.P.FindLifted(fn, CallSel(docsWrite))
				mw := c.P.FindLifted(fn, CallSel(metaWrite))
				if len(dw) == 0 || len(mw) == 0 {
					c.Undecided("lock:"+awWrite+":writes", fn.Pos(), "cannot find the docs and meta writes of ActiveWriter.Write")
					return
				}
				for _, l := range append(append([]Lifted{}, dw...), mw...) {
					at := top(l)
					if li.Held(at, "a.mu") == 2 {
						c.Site(at.Pos(), "file write under the writer mutex")
					} else {
						c.Violation("lock:"+awWrite+":write-outside-hold", at.Pos(), "ActiveWriter.Write appends to a fraction file without holding the writer mutex (lockset %s): two concurrent bulks can append their docs blocks in one order and their meta blocks in the other, and replay then attributes documents to the wrong ids", li.HeldSet(at))
					}
				}
				for _, u := range CallsIn(fn, OnFieldAny(Callee("(*sync.Mutex).Unlock"), "mu")) {
					if _, isDefer := u.(*ssa.Defer); isDefer {
						continue
					}
					ui := u.(ssa.Instruction)
					for _, d := range dw {
						for _, m := range mw {
							if Dominates(top(d), ui) && Dominates(ui, top(m)) {
								c.Violation("lock:"+awWrite+":two-holds", ui.Pos(), "the writer mutex is released between the docs write and the meta write of one bulk")
							}
						}
					}
				}
			}},
		{Prop: "C01", ID: "C01.10", Engine: "ORDER", Floor: 1,
			Desc:  "a bulk counts as indexed only when its statistics are published: in appendWorker Active.UpdateStats precedes task.Wg.Done (shared rule with C07.3) — replay and sealing wait on that wait group and then read DocsTotal / From / To: a fraction whose only bulk is not yet counted is removed as empty on restart, or sealed with a range that excludes the bulk",
			Check: func(c *Ctx) { indexPublicationOrder(c) }},
		{Prop: "C01", ID: "C01.2", Engine: "ORDER+ACK+DOM", Floor: 2,
			Desc: "FileWriter.Write: WriteAt precedes enqueueing the sync request, which precedes the wait; the only success return that skips the wait is under skipSync; otherwise the returned error is the value received from the sync loop",
			Check: func(c *Ctx) {
				fn := c.Fn(fwWrite)
				if fn == nil {
					return
				}
				writeAt := CallSel(Callee("(io.WriterAt).WriteAt", "(*os.File).WriteAt"))
				enq := FieldStore("frac.FileWriter", "queue")
				PrecedeI(c, fn, writeAt, "ws.WriteAt", enq, "append to fs.queue")
				PrecedeI(c, fn, enq, "append to fs.queue", IsRecv, "receive of sync result")
				// the value enqueued is the channel received from
				skipFact := func(fs []Fact) bool {
					v, ok := BoolFact(fs, func(x ssa.Value) bool {
						u, ok := x.(*ssa.UnOp)
						return ok && u.Op == token.MUL && IsFieldAddr(u.X, "frac.FileWriter", "skipSync")
					})
					return ok && v
				}
				idx := ErrorResultIndex(fn)
				for _, rp := range ReturnPaths(fn, idx) {
					if DefinitelyNonNil(rp.Val, rp.Facts) {
						continue
					}
					wa := CallsIn(fn, Callee("(io.WriterAt).WriteAt", "(*os.File).WriteAt"))
					if !AckOne(rp, wa) {
						c.Violation("ack:"+fwWrite+":WriteAt", rp.Ret.Pos(), "FileWriter.Write can return success without a successful WriteAt")
						continue
					}
					if skipFact(rp.Facts) {
						c.Site(rp.Ret.Pos(), "success return without waiting is under fs.skipSync")
						continue
					}
					if recvOfQueued(fn, rp.Val, enq) {
						c.Site(rp.Ret.Pos(), "returned error is received from the channel that was enqueued for the sync loop")
						continue
					}
					// the wait was moved into a helper: every maybe-nil return of the helper must be such a receive
					if hc, isCall := rp.Val.(*ssa.Call); isCall {
						if h := StaticCallee(hc); h != nil && h.Blocks != nil && c.P.InRepo(h) {
							okAll, n := true, 0
							for _, hrp := range ReturnPaths(h, ErrorResultIndex(h)) {
								if DefinitelyNonNil(hrp.Val, hrp.Facts) {
									continue
								}
								n++
								if !recvOfQueued(h, hrp.Val, enq) {
									okAll = false
								}
							}
							if okAll && n > 0 {
								c.Site(rp.Ret.Pos(), "returned error is what helper %s received from the channel it enqueued for the sync loop", FuncName(h))
								continue
							}
						}
					}
					c.Violation("ack:"+fwWrite+":sync-result", rp.Ret.Pos(), "FileWriter.Write can acknowledge (error operand %s) without waiting for the sync loop's result and not under skipSync", Short(rp.Val.String()))
				}
			}},
		{Prop: "C01", ID: "C01.3", Engine: "ORDER+PROV", Floor: 2,
			Desc: "FileWriter.syncLoop: per iteration the waiter queue is snapshotted before Sync(), Sync() precedes every notification, every notified channel comes from that snapshot and receives Sync's result",
			Check: func(c *Ctx) {
				fn := c.Fn("(*frac.FileWriter).syncLoop")
				if fn == nil {
					return
				}
				syncM := Callee("(frac.writeSyncer).Sync", "(*os.File).Sync")
				qload := FieldLoad("frac.FileWriter", "queue")
				PrecedeI(c, fn, qload, "snapshot of fs.queue", CallSel(syncM), "ws.Sync()")
				PrecedeI(c, fn, CallSel(syncM), "ws.Sync()", IsSend, "notify waiter")
				syncs := CallsIn(fn, syncM)
				isQueueLoad := func(v ssa.Value) bool {
					in, ok := v.(ssa.Instruction)
					return ok && qload(in)
				}
				// instructions of fn that produce a queue value: direct loads, or calls of helpers that read the queue
				mayQ := c.P.MayCall(func(cl ssa.CallInstruction) bool { return false })
				_ = mayQ
				var producers []ssa.Instruction
				for _, b := range fn.Blocks {
					for _, in := range b.Instrs {
						if qload(in) {
							producers = append(producers, in)
						} else if cl, ok := in.(*ssa.Call); ok {
							if h := StaticCallee(cl); h != nil && c.P.InRepo(h) && c.P.Locate(h, qload) != nil {
								producers = append(producers, in)
							}
						}
					}
				}
				for _, s := range InstrsIn(fn, IsSend) {
					snd := s.(*ssa.Send)
					okVal := false
					for _, sc := range syncs {
						if SameValue(snd.X, sc.Value()) {
							okVal = true
						}
					}
					if !okVal {
						c.Violation("prov:syncLoop:sent-value", snd.Pos(), "the value sent to a waiting writer is not the result of Sync()")
					}
					okChan := DerivesFrom(snd.Chan, isQueueLoad)
					// and not from a queue value produced after Sync
					for _, pr := range producers {
						pv, isV := pr.(ssa.Value)
						if !isV {
							continue
						}
						after := false
						for _, sc := range syncs {
							if Dominates(sc.(ssa.Instruction), pr) {
								after = true
							}
						}
						if after && DerivesFrom(snd.Chan, func(v ssa.Value) bool { return v == pv }) {
							okChan = false
						}
					}
					if okChan && okVal {
						c.Site(snd.Pos(), "waiter taken from the pre-Sync snapshot receives Sync's result")
					} else if !okChan {
						c.Violation("prov:syncLoop:notified-queue", snd.Pos(), "a waiter is notified that was not in the queue snapshot taken before Sync(): it can be acknowledged without its bytes being synced")
					}
				}
				// the queue is replaced under the same lock hold (a store to fs.queue before Sync)
				PrecedeI(c, fn, FieldStore("frac.FileWriter", "queue"), "reset of fs.queue", CallSel(syncM), "ws.Sync()")
			}},
		{Prop: "C01", ID: "C01.4", Engine: "ACK", Floor: 4,
			Desc: "ack provenance: at every hop GrpcV1.Bulk -> doBulk -> FracManager.Append -> proxyFrac.Append -> Active.Append -> ActiveWriter.Write -> FileWriter.Write, a maybe-nil error return is dominated by the callee's err==nil; Active.Append enqueues the index task only after the write succeeded; the writeSyncer behind FileWriter is an *os.File",
			Check: func(c *Ctx) {
				hops := []struct{ fn, callee string }{
					{"(*storeapi.GrpcV1).Bulk", "(*storeapi.GrpcV1).doBulk"},
					{"(*storeapi.GrpcV1).doBulk", "(*fracmanager.FracManager).Append"},
					{"(*fracmanager.FracManager).Append", "(*fracmanager.proxyFrac).Append"},
					{"(*fracmanager.proxyFrac).Append", actAppend},
					{actAppend, awWrite},
				}
				for _, h := range hops {
					fn := c.Fn(h.fn)
					if fn == nil {
						continue
					}
					AckCheck(c, fn, []Must{{Name: h.callee, M: Callee(h.callee)}}, nil)
				}
				if fn := c.Fn(awWrite); fn != nil {
					AckCheck(c, fn, []Must{
						{Name: "docs.Write", M: OnField(Callee(fwWrite), "frac.ActiveWriter", "docs")},
						{Name: "meta.Write", M: OnField(Callee(fwWrite), "frac.ActiveWriter", "meta")}}, nil)
				}
				if fn := c.Fn(actAppend); fn != nil {
					for _, ix := range CallsIn(fn, Callee("(*frac.ActiveIndexer).Index")) {
						if GuardedByNilErr(ix.(ssa.Instruction), Callee(awWrite)) {
							c.Site(ix.Pos(), "Active.Append indexes only after writer.Write succeeded")
						} else {
							c.Violation("dom:"+actAppend+":Index-needs-write-ok", ix.Pos(), "documents can be indexed (become searchable) although they were not written durably")
						}
					}
				}
				// what sits behind the writeSyncer interface
				n := 0
				for _, f := range c.P.Funcs {
					for _, b := range f.Blocks {
						for _, in := range b.Instrs {
							mi, ok := in.(*ssa.MakeInterface)
							if !ok || NamedTypeString(mi.Type()) != "frac.writeSyncer" {
								continue
							}
							n++
							if NamedTypeString(mi.X.Type()) == "os.File" {
								c.Site(mi.Pos(), "%s: writeSyncer is backed by *os.File", FuncName(f))
							} else {
								c.Violation("prov:writeSyncer:"+FuncName(f), mi.Pos(), "a FileWriter is built over %s, whose Sync is not known to be an fsync", mi.X.Type())
							}
						}
					}
				}
				if n == 0 {
					c.Undecided("prov:writeSyncer:none", token.NoPos, "no construction of frac.writeSyncer found")
				}
			}},
		{Prop: "C01", ID: "C01.14", Engine: "ERRFLOW", Floor: 3,
			Desc: "a short read is reported: in the methods of disk.DocBlocksReader (what Replay reads the log with) and their helpers no error of ReadLimiter.ReadAt is discarded — a torn last block must come back as (partial, io.EOF) so that Replay ends the log in front of it; a speculative read that drops the error hands Replay a zero-padded block as if it were complete, and the index worker panics on it at every start",
			Check: func(c *Ctx) {
				scope := c.P.FuncsMatching(func(name string, fn *ssa.Function) bool {
					return strings.HasPrefix(name, "(*disk.DocBlocksReader).") || strings.HasPrefix(name, "(disk.DocBlocksReader).")
				})
				if len(scope) == 0 {
					c.Undecided("errflow:DocBlocksReader:none", token.NoPos, "disk.DocBlocksReader has no methods any more")
					return
				}
				ErrFlowCheck(c, scope, nil)
			}},
		{Prop: "C01", ID: "C01.6", Engine: "ERRFLOW+TRUNC(ORDER+PROV+OWN)", Floor: 2,
			Desc: "Replay is tolerant and consistent with appending: io.EOF from ReadDocBlock ends the log (no error, no fatal sink), other errors are returned; before every success return both files are truncated to the replayed positions and the FileWriter append offsets are re-based there (otherwise the next append lands behind a torn tail / orphan block and the next replay misreads the files)",
			Check: func(c *Ctx) {
				fn := c.Fn("(*frac.Active).Replay")
				if fn == nil {
					return
				}
				rd := Callee("(*disk.DocBlocksReader).ReadDocBlock")
				reads := CallsIn(fn, rd)
				if len(reads) == 0 {
					c.Undecided("replay:noread", fn.Pos(), "Replay no longer calls DocBlocksReader.ReadDocBlock")
					return
				}
				ErrPathCheck(c, []*ssa.Function{fn}, nil)
				for _, r := range reads {
					ev := ErrorResult(r)
					if ev == nil {
						c.Violation("errflow:Replay:ReadDocBlock", r.Pos(), "the error of ReadDocBlock is dropped")
						continue
					}
					// the EOF branch
					found := false
					for _, ref := range *ev.Referrers() {
						bo, ok := ref.(*ssa.BinOp)
						if !ok || (bo.Op != token.EQL && bo.Op != token.NEQ) {
							continue
						}
						isEOF := func(v ssa.Value) bool {
							u, ok := v.(*ssa.UnOp)
							if !ok {
								return false
							}
							g, ok := u.X.(*ssa.Global)
							return ok && g.Name() == "EOF" && g.Pkg.Pkg.Path() == "io"
						}
						if !isEOF(bo.X) && !isEOF(bo.Y) {
							continue
						}
						for _, rr := range *bo.Referrers() {
							ifi, ok := rr.(*ssa.If)
							if !ok {
								continue
							}
							found = true
							tb := ifi.Block().Succs[0]
							if bo.Op == token.NEQ {
								tb = ifi.Block().Succs[1] // `err != io.EOF` : the end of the log is the false branch
							}
							bad := ""
							for _, b := range fn.Blocks {
								if b != tb && !(len(tb.Preds) == 1 && tb.Dominates(b)) {
									continue
								}
								// only the part of the region before control leaves the loop body matters
								if b != tb && !InLoop(b) {
									continue
								}
								for _, in := range b.Instrs {
									if IsFatalInstr(in) {
										bad = "reaches a fatal sink"
									}
								}
							}
							for _, rp := range ReturnPaths(fn, ErrorResultIndex(fn)) {
								if (rp.At == tb || len(tb.Preds) == 1 && tb.Dominates(rp.At)) && InLoop(rp.At) && DefinitelyNonNil(rp.Val, rp.Facts) {
									bad = "returns an error"
								}
							}
							if bad != "" {
								c.Violation("dom:Replay:EOF-ends-log", ifi.Pos(), "a short read at the end of the meta file (torn last block) %s instead of ending the replay", bad)
							} else {
								c.Site(ifi.Pos(), "io.EOF from ReadDocBlock ends the replay loop")
							}
						}
					}
					if !found {
						c.Violation("dom:Replay:EOF-not-tested", r.Pos(), "Replay does not distinguish io.EOF (end of log / torn tail) from other read errors")
					}
				}
				// TRUNC
				x := &FileOpExtractor{P: c.P, Cfg: func(ssa.Value) (string, string, string, bool) { return "", "", "", false }}
				fromMetaSize := func(v ssa.Value) bool {
					e, ok := v.(*ssa.Extract)
					if !ok || e.Index != 1 {
						return false
					}
					cl, ok := e.Tuple.(ssa.CallInstruction)
					return ok && rd(cl)
				}
				fromExt1 := func(v ssa.Value) bool {
					cl, ok := v.(ssa.CallInstruction)
					return ok && CallName(cl) == "(disk.DocBlock).GetExt1"
				}
				offsetStore := func(field string) Matcher {
					return func(cl ssa.CallInstruction) bool {
						if CallName(cl) != "(*sync/atomic.Int64).Store" {
							return false
						}
						r := Receiver(cl)
						typ, f, base, ok := FieldOf(r)
						return ok && typ == "frac.FileWriter" && f == "offset" && ValueIsField(base, "frac.ActiveWriter", field)
					}
				}
				idx := ErrorResultIndex(fn)
				for _, rp := range ReturnPaths(fn, idx) {
					if DefinitelyNonNil(rp.Val, rp.Facts) {
						continue
					}
					ok := false
					why := "no call that truncates the files dominates this success return"
					for _, call := range CallsIn(fn, c.P.Reaches(Callee("(*os.File).Truncate"), 3)) {
						ci := call.(ssa.Instruction)
						if !(ci.Block() == rp.At || ci.Block().Dominates(rp.At)) {
							continue
						}
						seqs := x.SeqsOfCall(call)
						if CallName(call) == "(*os.File).Truncate" {
							continue // a direct truncate: handled only through a helper in today's code
						}
						hasMeta, hasDocs := len(seqs) > 0, len(seqs) > 0
						for _, s := range seqs {
							m, d := false, false
							for _, op := range s.Ops {
								if op.Kind == "truncate" && op.A == ".meta" {
									m = true
								}
								if op.Kind == "truncate" && op.A == ".docs" {
									d = true
								}
							}
							// a path of the helper that skips the truncate must be one where nothing lies behind the position;
							// only complete success sequences are compared
							if !s.Died {
								hasMeta = hasMeta && m
								hasDocs = hasDocs && d
							}
						}
						argMeta, argDocs := false, false
						for _, a := range call.Common().Args {
							if DerivesFrom(a, fromMetaSize) {
								argMeta = true
							}
							if DerivesFrom(a, fromExt1) {
								argDocs = true
							}
						}
						callee := StaticCallee(call)
						stDocs := Current.HasCall(callee, offsetStore("docs"))
						stMeta := Current.HasCall(callee, offsetStore("meta"))
						switch {
						case !argMeta || !argDocs:
							why = "the truncation positions are not derived from the replayed block sizes (meta: ReadDocBlock size, docs: sum of Ext1)"
						case !stDocs || !stMeta:
							why = "the FileWriter append offsets are not re-based to the replayed positions"
						case !hasMeta || !hasDocs:
							why = "a success path of the helper truncates only one of the two files or none"
							// truncation may be conditional (file not longer than the position): accept when a truncate of each file is reachable
							all := map[string]bool{}
							for _, s := range seqs {
								for _, op := range s.Ops {
									if op.Kind == "truncate" {
										all[op.A] = true
									}
								}
							}
							if all[".meta"] && all[".docs"] {
								ok = true
							}
						default:
							ok = true
						}
						if ok {
							break
						}
					}
					if ok {
						c.Site(rp.Ret.Pos(), "Replay success return is preceded by truncation of .meta/.docs to the replayed positions and re-basing of both append offsets")
					} else {
						c.Violation("trunc:Replay:success-return", rp.Ret.Pos(), "Replay can finish without making the files agree with the replayed positions: %s", why)
					}
				}
				for _, p := range x.Problems {
					c.Undecided("trunc:extract:"+p, fn.Pos(), "%s", p)
				}
			}},
		{Prop: "C01", ID: "C01.8", Engine: "PROV(verbatim error)", Floor: 2,
			Desc:  "short reads reach Replay: ReadLimiter.ReadAt, DocBlocksReader.getDocBlockLen and ReadDocBlock return the error of the underlying ReadAt verbatim on every path after the read (Replay recognises the torn tail only by err == io.EOF)",
			Check: func(c *Ctx) { readErrorsVerbatim(c) }},
		{Prop: "C01", ID: "C01.7", Engine: "FILESTATE", Floor: 10,
			Desc:  "loader totality on the active-fraction file sets: no crash prefix of fraction creation, sealing or release makes the loader reach a fatal sink (the store always comes back up)",
			Check: func(c *Ctx) { fileStateObligations(c, "C01") }},
		{Prop: "C01", ID: "C01.5", Engine: "PROV+OWN", Floor: 2,
			Desc: "fsync can be switched off only by the command line: skipSync parameters derive from conf.SkipFsync, which is stored only in package cmd/seq-db (and its initializer)",
			Check: func(c *Ctx) {
				isSkipGlobal := func(v ssa.Value) bool {
					u, ok := v.(*ssa.UnOp)
					if !ok || u.Op != token.MUL {
						return false
					}
					g, ok := u.X.(*ssa.Global)
					return ok && g.Name() == "SkipFsync" && g.Pkg.Pkg.Path() == ModPath+"/conf"
				}
				for _, ctor := range []struct {
					name string
					arg  int
				}{{"frac.NewActiveWriter", 4}, {"frac.NewFileWriter", 2}} {
					fn := c.Fn(ctor.name)
					if fn == nil {
						continue
					}
					for _, call := range c.P.Callers(fn) {
						caller := call.Parent()
						a := Arg(call, ctor.arg)
						ok := DerivesFrom(a, func(v ssa.Value) bool {
							if isSkipGlobal(v) {
								return true
							}
							// or the caller's own skip parameter (checked at its callers in turn)
							if p, isP := v.(*ssa.Parameter); isP && FuncName(caller) == "frac.NewActiveWriter" && ParamName(p) == "skipFsync" {
								return true
							}
							return false
						})
						if b, isConst := ConstBool(a); isConst && !b {
							ok = true
						}
						if ok {
							c.Site(call.Pos(), "%s: skip-sync argument of %s derives from conf.SkipFsync", FuncName(caller), ctor.name)
						} else {
							c.Violation("prov:skipSync:"+FuncName(caller)+"->"+ctor.name, call.Pos(), "skip-sync argument %s does not derive from conf.SkipFsync", Short(a.String()))
						}
					}
				}
				// stores to the global
				stores := 0
				for _, f := range c.P.Funcs {
					for _, in := range InstrsIn(f, func(in ssa.Instruction) bool {
						s, ok := in.(*ssa.Store)
						if !ok {
							return false
						}
						g, ok := s.Addr.(*ssa.Global)
						return ok && g.Name() == "SkipFsync" && g.Pkg.Pkg.Path() == ModPath+"/conf"
					}) {
						stores++
						pk := PkgOf(f)
						if pk == "cmd/seq-db" || (pk == "conf" && f.Name() == "init") {
							c.Site(in.Pos(), "%s stores conf.SkipFsync (allowed owner)", FuncName(f))
						} else {
							c.Violation("own:conf.SkipFsync:"+FuncName(f), in.Pos(), "%s writes conf.SkipFsync; only flag parsing may disable fsync", FuncName(f))
						}
					}
				}
			}},
	}
}

// truncateOnlyAtEOF: rule body of C01.12, shared with C15.
func truncateOnlyAtEOF(c *Ctx) {
	fn := c.Fn("(*frac.Active).Replay")
	if fn == nil {
		return
	}
	trunc := c.P.MayCall(Callee("(*os.File).Truncate"))
	calls := CallsIn(fn, trunc)
	if len(calls) == 0 {
		c.Undecided("dom:Replay:notrunc", fn.Pos(), "Replay no longer truncates the files (C01.6 decides whether that is right)")
		return
	}
	isEOF := func(v ssa.Value) bool {
		u, ok := v.(*ssa.UnOp)
		if !ok {
			return false
		}
		g, ok := u.X.(*ssa.Global)
		return ok && g.Name() == "EOF" && g.Pkg != nil && g.Pkg.Pkg.Path() == "io"
	}
	// evidence that the log has ended, carried by a branch edge: the read answered io.EOF, or it delivered nothing /
	// fewer bytes than the block it started (the two ways a reader can tell a torn or missing tail)
	rd := Callee("(*disk.DocBlocksReader).ReadDocBlock")
	isReadResult := func(v ssa.Value, idx int) bool {
		for {
			if cv, ok := v.(*ssa.Convert); ok {
				v = cv.X
				continue
			}
			break
		}
		e, ok := v.(*ssa.Extract)
		if !ok || e.Index != idx {
			return false
		}
		cl, ok := e.Tuple.(ssa.CallInstruction)
		return ok && rd(cl)
	}
	isLenOfBlock := func(v ssa.Value) bool {
		for {
			if cv, ok := v.(*ssa.Convert); ok {
				v = cv.X
				continue
			}
			break
		}
		cl, ok := v.(*ssa.Call)
		return ok && CallName(cl) == "builtin.len" && isReadResult(cl.Call.Args[0], 0)
	}
	usedLength := false
	evidence := func(f Fact) bool {
		bo, isBo := f.Cond.(*ssa.BinOp)
		if !isBo {
			return false
		}
		switch bo.Op {
		case token.EQL, token.NEQ:
			if (bo.Op == token.EQL) != f.Val {
				return false
			}
			if isEOF(bo.X) || isEOF(bo.Y) {
				return true
			}
			if k, isK := ConstInt(bo.Y); isK && k == 0 && isReadResult(bo.X, 1) {
				return true // nothing was read
			}
		case token.LSS, token.GTR, token.LEQ, token.GEQ:
			// size < len(block)  (in whichever spelling)
			op, x, y := bo.Op, bo.X, bo.Y
			if !f.Val {
				op = map[token.Token]token.Token{token.LSS: token.GEQ, token.GEQ: token.LSS, token.GTR: token.LEQ, token.LEQ: token.GTR}[op]
			}
			if op == token.GTR {
				op, x, y = token.LSS, y, x
			}
			if op == token.LSS && isReadResult(x, 1) && isLenOfBlock(y) {
				usedLength = true
				return true
			}
		}
		return false
	}
	var crosses func(b *ssa.BasicBlock, seen map[*ssa.BasicBlock]bool) bool
	crosses = func(b *ssa.BasicBlock, seen map[*ssa.BasicBlock]bool) bool {
		if seen[b] {
			return true
		}
		seen[b] = true
		if len(b.Preds) == 0 {
			return false // reached the entry without crossing an evidence edge
		}
		for _, p := range b.Preds {
			ok := false
			for _, f := range FactsOnEdge(p, b) {
				if evidence(f) {
					ok = true
				}
			}
			if !ok && !crosses(p, seen) {
				return false
			}
		}
		return true
	}
	for _, call := range calls {
		ok := crosses(call.(ssa.Instruction).Block(), map[*ssa.BasicBlock]bool{})
		if ok {
			c.Site(call.Pos(), "the files are cut only after the log was read to io.EOF")
		} else {
			c.Violation("dom:Replay:truncate-needs-eof", call.Pos(), "Replay can cut .docs/.meta at the replayed position although the log was not read to its end (the loop was left for another reason than io.EOF, e.g. a cancelled context): everything behind that position — acknowledged bulks — is destroyed")
		}
	}
	// "fewer bytes than the block" tells a torn tail only if the reader hands back the block at its declared length:
	// a reader that cuts the slice to what it read makes every torn block look complete
	if usedLength {
		if rdf := c.Fn("(*disk.DocBlocksReader).ReadDocBlock"); rdf != nil {
			readAt := c.P.MayCall(Callee("(*os.File).ReadAt", "(io.ReaderAt).ReadAt"))
			for _, rp := range ReturnPaths(rdf, 0) {
				sl, isSlice := rp.Val.(*ssa.Slice)
				cut := isSlice && sl.High != nil && DerivesFrom(sl.High, func(v ssa.Value) bool {
					cl, ok := v.(ssa.CallInstruction)
					return ok && readAt(cl)
				})
				if cut {
					c.Violation("dom:Replay:length-evidence-needs-full-block", rp.Ret.Pos(), "Replay takes `bytes read < len(block)` for the sign of a torn last block, but ReadDocBlock returns the block cut to the bytes it read: the two are always equal, a torn meta block is handed to the indexer as a complete one (the start-up panics, or reads garbage), and the tail is never cut")
				} else if !IsNilConst(rp.Val) {
					c.Site(rp.Ret.Pos(), "ReadDocBlock returns the block at its declared length (short reads are visible to Replay)")
				}
			}
		}
	}
}

// readErrorsVerbatim: rule body of C01.8. The readers are found, not listed: starting from (*os.File).ReadAt, a
// function of package disk that calls a reader and returns that call's error verbatim on every path after the
// call is a reader itself (ReadLimiter.ReadAt, a private readAt wrapper, getDocBlockLen, ...). The anchors must
// be readers in that sense.
func readErrorsVerbatim(c *Ctx) {
	readers := map[string]bool{"(*os.File).ReadAt": true}
	isReader := func(cl ssa.CallInstruction) bool { return readers[CallName(cl)] }
	type verdict struct {
		ok    bool
		sites []func()
		bad   []func()
	}
	check := func(fn *ssa.Function) (v verdict, hasRead bool) {
		name := FuncName(fn)
		calls := CallsIn(fn, isReader)
		if len(calls) == 0 || ErrorResultIndex(fn) < 0 {
			return verdict{}, false
		}
		v.ok = true
		for _, rp := range ReturnPaths(fn, ErrorResultIndex(fn)) {
			rp := rp
			// the last read that dominates this return decides
			var last ssa.CallInstruction
			for _, cl := range calls {
				ci := cl.(ssa.Instruction)
				if ci.Block() == rp.At || ci.Block().Dominates(rp.At) {
					if last == nil || Dominates(last.(ssa.Instruction), ci) {
						last = cl
					}
				}
			}
			if last == nil {
				continue
			}
			lastName := CallName(last)
			ev := ErrorResult(last)
			switch {
			case ev != nil && SameValue(rp.Val, ev):
				v.sites = append(v.sites, func() { c.Site(rp.Ret.Pos(), "%s returns the error of %s verbatim", name, lastName) })
			case ev != nil && IsNilConst(rp.Val) && KnownNil(rp.Facts, ev):
				v.sites = append(v.sites, func() { c.Site(rp.Ret.Pos(), "%s returns nil only under %s err == nil", name, lastName) })
			case DefinitelyNonNil(rp.Val, rp.Facts) && func() bool {
				// an earlier read's own error returned under its != nil test
				for _, cl := range calls {
					if e := ErrorResult(cl); e != nil && SameValue(rp.Val, e) {
						return true
					}
				}
				return false
			}():
				v.sites = append(v.sites, func() { c.Site(rp.Ret.Pos(), "%s returns a failed read's error", name) })
			default:
				v.ok = false
				v.bad = append(v.bad, func() {
					c.Violation("verbatim:"+name+":"+lastName, rp.Ret.Pos(), "%s returns %s instead of the error of %s: a short read (torn tail) is no longer reported as io.EOF to Replay", name, Short(rp.Val.String()), lastName)
				})
			}
		}
		return v, true
	}
	for round := 0; round < 4; round++ {
		grew := false
		for _, fn := range c.P.FuncsInPkg("disk") {
			if readers[FuncName(fn)] || fn.Parent() != nil {
				continue
			}
			if v, has := check(fn); has && v.ok {
				readers[FuncName(fn)] = true
				grew = true
			}
		}
		if !grew {
			break
		}
	}
	for _, name := range []string{"(*disk.ReadLimiter).ReadAt", "(*disk.DocBlocksReader).getDocBlockLen", "(*disk.DocBlocksReader).ReadDocBlock"} {
		fn := c.Fn(name)
		if fn == nil {
			continue
		}
		delete(readers, name) // judged on what it calls, not on itself
		v, has := check(fn)
		if !has {
			c.Undecided("verbatim:nocall:"+name, fn.Pos(), "%s no longer performs the read this rule is about", name)
			continue
		}
		for _, f := range v.sites {
			f()
		}
		for _, f := range v.bad {
			f()
		}
		if v.ok {
			readers[name] = true
		}
	}
}
