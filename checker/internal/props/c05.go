package props

import (
	"go/token"
	"go/types"
	"strings"

	"golang.org/x/tools/go/ssa"

	. "seqverif/internal/kit"
)

func init() {
	register(&PropInfo{
		ID:          "C05",
		Title:       "Results are independent of how documents are split over fractions and shards",
		Explanation: "Decided: (1) the searcher sorts the range-filtered fraction list by the requested order before it is consumed chunk-wise; (2) the sort key and the early-termination key are the same border per order (descending: To, ascending: From — evaluated over both DocsOrder constants through the one-line predicates IsDesc/IsReverse), and the early-termination test is non-strict (an id equal to the next fraction's border is not final); (3) the merge pipeline is concat, sort, de-duplicate, cut, and the limit shrink uses the merged ids and the remaining fractions; (4) store and proxy limits are offset+size, pagination follows the merge, every MergeQPRs call takes interval and order from the request; (5) a fraction error fails the search. NOT decided: the early-termination arithmetic beyond these keys, paging continuity, cross-replica de-duplication by source.",
		Assumptions: []string{"DocsOrder has the two declared constants"},
		Obs:         c05,
	})
}

// orderPredValue evaluates a one-line predicate method `return o == K` for constant k.
func orderPredValue(fn *ssa.Function, k int64) (bool, bool) {
	if fn == nil || len(fn.Blocks) != 1 {
		return false, false
	}
	ret, ok := fn.Blocks[0].Instrs[len(fn.Blocks[0].Instrs)-1].(*ssa.Return)
	if !ok || len(ret.Results) != 1 {
		return false, false
	}
	bo, ok := ret.Results[0].(*ssa.BinOp)
	if !ok {
		return false, false
	}
	c, isK := ConstInt(bo.Y)
	if !isK {
		return false, false
	}
	switch bo.Op {
	case token.EQL:
		return c == k, true
	case token.NEQ:
		return c != k, true
	}
	return false, false
}

// borderFieldOf: which frac.Info border (From/To) a function (closure) reads, and with which comparison.
func borderFieldOf(fn *ssa.Function) (field string, op token.Token) {
	for _, b := range fn.Blocks {
		for _, in := range b.Instrs {
			bo, ok := in.(*ssa.BinOp)
			if !ok {
				continue
			}
			switch bo.Op {
			case token.LSS, token.LEQ, token.GTR, token.GEQ:
			default:
				continue
			}
			for _, side := range []ssa.Value{bo.X, bo.Y} {
				DerivesFrom(side, func(v ssa.Value) bool {
					if ValueIsField(v, "frac.Info", "From") {
						field = "From"
						op = bo.Op
						return true
					}
					if ValueIsField(v, "frac.Info", "To") {
						field = "To"
						op = bo.Op
						return true
					}
					return false
				})
			}
		}
	}
	return
}

// closureUnder maps the outcome of a branch on pred(order) to the closure created in that branch.
func closuresByBranch(fn *ssa.Function, predName string) map[bool]*ssa.Function {
	out := map[bool]*ssa.Function{}
	isPred := func(x ssa.Value) bool {
		cl, ok := x.(ssa.CallInstruction)
		return ok && CallName(cl) == predName
	}
	// the comparator handed to a call (sort.Slice, sort.Search, ...): one closure per outcome of the predicate,
	// whether each branch makes its own call or the branches only choose the closure for one shared call
	for _, call := range CallsIn(fn, nil) {
		for _, arg := range call.Common().Args {
			if _, isFunc := arg.Type().Underlying().(*types.Signature); !isFunc {
				continue
			}
			for _, o := range Current.Origins(arg, FactsAtInstr(call.(ssa.Instruction)), 2, nil) {
				mc, ok := o.Val.(*ssa.MakeClosure)
				if !ok {
					continue
				}
				if cf, _ := mc.Fn.(*ssa.Function); cf != nil {
					if v, found := BoolFact(o.Facts, isPred); found {
						out[v] = cf
					}
				}
			}
		}
	}
	if len(out) > 0 {
		return out
	}
	for _, b := range fn.Blocks {
		for _, in := range b.Instrs {
			mc, ok := in.(*ssa.MakeClosure)
			if !ok {
				continue
			}
			cf, _ := mc.Fn.(*ssa.Function)
			v, found := BoolFact(FactsAt(b), isPred)
			if found && cf != nil {
				out[v] = cf
			}
		}
	}
	return out
}

func c05() []*Ob {
	return []*Ob{
		{Prop: "C05", ID: "C05.13", Engine: "LOCK(one hold)", Floor: 1,
			Desc:  "an active fraction answers like a sealed one: TokenLIDs.GetLIDs takes the queued batch (getQueuedLIDs) with sortedMu held, so taking and merging are one critical section — with the drain in front of the lock a second reader of the token finds the queue empty, gets the merge mutex first and returns a list that lacks acknowledged documents",
			Check: func(c *Ctx) { drainAndMergeInOneHold(c) }},
		{Prop: "C05", ID: "C05.12", Engine: "WHO-MAY-WRITE(request fields)", Floor: 1,
			Desc:  "every fraction is asked the same question: between the iterations of Searcher.SearchDocs the only fields of the request that are assigned are Limit (justified by calcEnsuredIDsCount) and From / To when they are cut at a timestamp as it is (inclusive, no +1 / -1 in the derivation of the new bound, also through a helper); the query, the order and the aggregations are those of the caller for every fraction — a time range narrowed past the millisecond of the last id found drops documents of later fractions that share the last id's millisecond, only when the fractions are searched in more than one iteration",
			Check: func(c *Ctx) { sameQuestionForEveryFraction(c) }},
		{Prop: "C05", ID: "C05.11", Engine: "SHAPE(accumulation)", Floor: 3,
			Desc:  "the split over fractions and shards does not change the counters of a group: SamplesContainer.Merge adds the operand's counters to its own on every path (shared rule with C06.11) — a copy instead of an addition makes the not-exists count of a group depend on which fraction is merged first",
			Check: shared("C06.11")},
		{Prop: "C05", ID: "C05.10", Engine: "PAIR(two sites)", Floor: 1,
			Desc:  "the list that is consumed in chunks is sorted: prepareFracs sorts on every success path, or — if it skips the sort when one iteration covers the list — SearchDocs cuts its iterations by the configured size alone. With both relaxed an unsorted list is searched in several chunks and the early-termination test reads the border of the wrong fraction",
			Check: func(c *Ctx) { chunkedListIsSorted(c) }},
		{Prop: "C05", ID: "C05.9", Engine: "PAIR(accumulators)", Floor: 3,
			Desc:  "the borders the fraction list is sorted and cut by are true extrema of the fraction's documents: metaDataCollector.MinMID/MaxMID (also after the duplicate filter) and Info.From/To are running minimum and maximum, each of its own (shared rule with C14.8) — a fraction whose To is below its newest document is searched too late in a descending search, and ids are declared final although it still holds newer ones",
			Check: func(c *Ctx) { runningExtrema(c) }},
		{Prop: "C05", ID: "C05.8", Engine: "PAIR(comparator)", Floor: 1,
			Desc:  "documents of one millisecond are ordered the same way inside every fraction as the merge orders them: wherever the active posting lists are ordered, ties on MID are broken by RID in the direction of seq.Less (shared rule with C02.7) — otherwise a limit that cuts through such a group keeps different members in different layouts",
			Check: shared("C02.7")},
		{Prop: "C05", ID: "C05.1", Engine: "ORDER+PROV", Floor: 2,
			Desc: "sort, then chunk: prepareFracs filters by range and sorts by the request order; SearchDocs shifts chunks off exactly that list and shrinks the limit from the merged ids and the remaining fractions",
			Check: func(c *Ctx) {
				if fn := c.Fn("(*fracmanager.Searcher).prepareFracs"); fn != nil {
					MustPrecede(c, fn, Callee("(fracmanager.List).FilterInRange"), "FilterInRange", Callee("(fracmanager.List).Sort"), "fracs.Sort(order)")
					for _, s := range CallsIn(fn, Callee("(fracmanager.List).Sort")) {
						if DerivesFrom(Arg(s, 0), func(v ssa.Value) bool { return ValueIsField(v, "frac/processor.SearchParams", "Order") }) {
							c.Site(s.Pos(), "the list is sorted by the request's order")
						} else {
							c.Violation("prov:prepareFracs:sort-order", s.Pos(), "the fraction list is not sorted by params.Order")
						}
						// what is returned is the sorted list
					}
				}
				if fn := c.Fn("(*fracmanager.Searcher).SearchDocs"); fn != nil {
					prep := CallsIn(fn, Callee("(*fracmanager.Searcher).prepareFracs"))
					shift := CallsIn(fn, Callee("(*fracmanager.List).Shift"))
					if len(prep) == 1 && len(shift) >= 1 && InLoop(shift[0].(ssa.Instruction).Block()) {
						c.Site(shift[0].Pos(), "chunks are shifted off the prepared (sorted) list")
					} else {
						c.Violation("order:SearchDocs:chunks", fn.Pos(), "SearchDocs no longer consumes the prepared fraction list chunk by chunk")
					}
					// the merge itself, or the call of a private helper that always merges (search-and-merge extracted)
					merge := CallsIn(fn, c.P.MustCall(Callee("seq.MergeQPRs")))
					ens := CallsIn(fn, Callee("fracmanager.calcEnsuredIDsCount"))
					if len(merge) == 1 && len(ens) == 1 && Dominates(merge[0].(ssa.Instruction), ens[0].(ssa.Instruction)) {
						okIDs := DerivesFrom(Arg(ens[0], 0), func(v ssa.Value) bool { return ValueIsField(v, "seq.QPR", "IDs") })
						okOrd := DerivesFrom(Arg(ens[0], 2), func(v ssa.Value) bool { return ValueIsField(v, "frac/processor.SearchParams", "Order") })
						if okIDs && okOrd {
							c.Site(ens[0].Pos(), "the limit is reduced from the merged ids, the remaining fractions and the request order")
						} else {
							c.Violation("prov:SearchDocs:ensured-args", ens[0].Pos(), "calcEnsuredIDsCount is not given the merged ids / the request order")
						}
						// merge limit is the original limit (not the shrunk one)
						var limitArg ssa.Value
						for _, lm := range c.P.FindLifted(fn, CallSel(Callee("seq.MergeQPRs"))) {
							limitArg = Arg(lm.Call(), 2)
							// a helper's parameter stands for what the helper was called with
							for i := len(lm.Via) - 1; i >= 0; i-- {
								p, isP := limitArg.(*ssa.Parameter)
								if !isP {
									break
								}
								for k, hp := range p.Parent().Params {
									if hp == p && k < len(lm.Via[i].Common().Args) {
										limitArg = lm.Via[i].Common().Args[k]
									}
								}
							}
						}
						if _, isPhi := limitArg.(*ssa.Phi); isPhi {
							c.Violation("prov:SearchDocs:merge-limit", merge[0].Pos(), "MergeQPRs is given the shrinking per-iteration limit instead of the original limit")
						} else {
							c.Site(merge[0].Pos(), "merged result is cut to the original limit")
						}
					} else {
						c.Violation("order:SearchDocs:merge-then-shrink", fn.Pos(), "SearchDocs no longer merges and then shrinks the limit in every iteration")
					}
				}
			}},
		{Prop: "C05", ID: "C05.2", Engine: "PAIR", Floor: 2,
			Desc:  "the sort key is the cut key: for each DocsOrder constant, List.Sort orders fractions by the same border (To for descending, From for ascending) that calcEnsuredIDsCount compares ids with, and that comparison is non-strict (ids equal to the border are not final)",
			Check: func(c *Ctx) { sortKeyIsCutKey(c) }},
		{Prop: "C05", ID: "C05.4", Engine: "PROV+ORDER", Floor: 2,
			Desc: "limits and arguments: the store searches with limit = size + offset; the proxy merges with offset + size and paginates after the merge; every MergeQPRs call in the proxy takes interval and order from the search request",
			Check: func(c *Ctx) {
				if fn := c.Fn("(*storeapi.GrpcV1).doSearch"); fn != nil {
					ok := false
					for _, st := range InstrsIn(fn, FieldStore("frac/processor.SearchParams", "Limit")) {
						if DerivesFrom(st.(*ssa.Store).Val, func(v ssa.Value) bool {
							bo, isB := v.(*ssa.BinOp)
							if !isB || bo.Op != token.ADD {
								return false
							}
							hasSize := DerivesFrom(bo, func(x ssa.Value) bool { return ValueIsField(x, "pkg/storeapi.SearchRequest", "Size") })
							hasOff := DerivesFrom(bo, func(x ssa.Value) bool { return ValueIsField(x, "pkg/storeapi.SearchRequest", "Offset") })
							return hasSize && hasOff
						}) {
							ok = true
							c.Site(st.Pos(), "store limit = size + offset")
						}
					}
					if !ok {
						c.Violation("prov:storeapi.doSearch:limit", fn.Pos(), "the store no longer searches with limit = req.Size + req.Offset: pages beyond the first would miss documents")
					}
				}
				mergeExact := false // the merged list is already cut to offset + size
				if fn := c.Fn("(*proxy/search.Ingestor).Search"); fn != nil {
					merge := CallsIn(fn, Callee("seq.MergeQPRs"))
					pag := CallsIn(fn, Callee("(*proxy/search.Ingestor).paginateIDs"))
					if len(merge) == 1 && len(pag) == 1 && Dominates(merge[0].(ssa.Instruction), pag[0].(ssa.Instruction)) {
						c.Site(pag[0].Pos(), "pagination follows the merge")
						lim := Arg(merge[0], 2)
						hasOff := DerivesFrom(lim, func(v ssa.Value) bool { return ValueIsField(v, "proxy/search.SearchRequest", "Offset") })
						hasSize := DerivesFrom(lim, func(v ssa.Value) bool { return ValueIsField(v, "proxy/search.SearchRequest", "Size") })
						if bo, ok := lim.(*ssa.BinOp); ok && bo.Op == token.ADD && hasOff && hasSize {
							mergeExact = true
							c.Site(merge[0].Pos(), "proxy merge limit = offset + size")
						} else if hasOff && hasSize {
							c.Site(merge[0].Pos(), "proxy merge limit is computed from offset and size (the page is cut by paginateIDs)")
						} else {
							c.Violation("prov:Ingestor.Search:merge-limit", merge[0].Pos(), "the proxy does not merge with a limit computed from sr.Offset and sr.Size")
						}
						okH := DerivesFrom(Arg(merge[0], 3), func(v ssa.Value) bool { return ValueIsField(v, "proxy/search.SearchRequest", "Interval") })
						okO := DerivesFrom(Arg(merge[0], 4), func(v ssa.Value) bool { return ValueIsField(v, "proxy/search.SearchRequest", "Order") })
						if okH && okO {
							c.Site(merge[0].Pos(), "proxy merge uses the request's interval and order")
						} else {
							c.Violation("prov:Ingestor.Search:merge-args", merge[0].Pos(), "the proxy merges with an interval/order that is not the request's")
						}
					} else {
						c.Violation("order:Ingestor.Search:merge-paginate", fn.Pos(), "Ingestor.Search no longer merges once and then paginates")
					}
				}
				if fn := c.Fn("(*proxy/search.Ingestor).paginateIDs"); fn != nil {
					// ids[offset:] then [:size]
					lowOK, sizeCut := false, false
					for _, b := range fn.Blocks {
						for _, in := range b.Instrs {
							if sl, ok := in.(*ssa.Slice); ok {
								if sl.Low != nil && DerivesFrom(sl.Low, func(v ssa.Value) bool { p, ok := v.(*ssa.Parameter); return ok && ParamName(p) == "offset" }) {
									lowOK = true
								}
								if sl.High != nil && DerivesFrom(sl.High, func(v ssa.Value) bool { p, ok := v.(*ssa.Parameter); return ok && ParamName(p) == "size" }) {
									sizeCut = true
								}
							}
						}
					}
					// the page holds at most size ids: cut here, or already by a merge limited to exactly offset + size
					switch {
					case !lowOK:
						c.Violation("prov:paginateIDs", fn.Pos(), "paginateIDs no longer drops the first offset ids")
					case sizeCut:
						c.Site(fn.Pos(), "paginateIDs drops offset ids and keeps size ids")
					case mergeExact:
						c.Site(fn.Pos(), "paginateIDs drops offset ids; the merged list was cut to offset + size before")
					default:
						c.Violation("prov:paginateIDs", fn.Pos(), "a page is cut to size neither by paginateIDs nor by the merge limit (which is not exactly offset + size): the number of ids returned depends on how many shards answered, and consecutive pages repeat documents")
					}
				}
			}},
		{Prop: "C05", ID: "C05.6", Engine: "PAIR(key)", Floor: 1,
			Desc:  "a repetition is the same document id, wherever it came from: removeRepetitionsAdvanced (the merge of per-fraction and per-shard results) compares IDSource.ID and never reads IDSource.Source or Hint, directly or through a helper (the same document answered by two shards differs only in Source)",
			Check: func(c *Ctx) { repetitionKeyIsID(c) }},
		{Prop: "C05", ID: "C05.7", Engine: "SIBLING+ORDER+DOM", Floor: 1,
			Desc:  "a sealed fraction is never pruned away from a search that its documents belong to: the occupancy map is built from every id of the fraction, with the bucket function that tests it (shared rule with C14.4 — a document that is found while its fraction is active must still be found after sealing)",
			Check: func(c *Ctx) { occupancyMapComplete(c) }},
		{Prop: "C05", ID: "C05.5", Engine: "ERRFLOW", Floor: 3,
			Desc: "a fraction error fails the search inside a store: the error of fracSearch reaches searchDocsAsync's and SearchDocs' return",
			Check: func(c *Ctx) {
				fns, ok := c.Fns("(*fracmanager.Searcher).SearchDocs", "(*fracmanager.Searcher).searchDocsAsync")
				if !ok {
					return
				}
				var scope []*ssa.Function
				for _, f := range fns {
					scope = append(scope, WithClosures(f)...)
				}
				ErrFlowCheck(c, scope, nil)
				ErrPathCheck(c, scope, nil)
				// searchDocsAsync returns qprs only when no error was captured
				if fn := fns[1]; fn != nil {
					for _, b := range fn.Blocks {
						ret, isR := b.Instrs[len(b.Instrs)-1].(*ssa.Return)
						if !isR || b == fn.Recover {
							continue
						}
						if IsNilConst(RetOperand(ret, 1)) {
							okNil := false
							for _, f := range FactsAt(b) {
								if bo, ok := f.Cond.(*ssa.BinOp); ok && (IsNilConst(bo.Y) || IsNilConst(bo.X)) && IsErrorType(bo.X.Type()) {
									if (bo.Op == token.NEQ) != f.Val {
										okNil = true
									}
								}
							}
							if okNil {
								c.Site(ret.Pos(), "partial results are returned only when no fraction failed")
							} else {
								c.Violation("ack:searchDocsAsync:nil-needs-no-error", ret.Pos(), "searchDocsAsync can return results with a nil error without having checked the captured fraction error")
							}
						}
					}
				}
			}},
	}
}

// sortKeyIsCutKey: rule body of C05.2, shared with other properties.
func sortKeyIsCutKey(c *Ctx) {
	sortFn, ensFn := c.Fn("(fracmanager.List).Sort"), c.Fn("fracmanager.calcEnsuredIDsCount")
	isDesc, isRev := c.Fn("(seq.DocsOrder).IsDesc"), c.Fn("(seq.DocsOrder).IsReverse")
	if sortFn == nil || ensFn == nil || isDesc == nil || isRev == nil {
		return
	}
	sortBr := closuresByBranch(sortFn, "(seq.DocsOrder).IsDesc")
	ensBr := closuresByBranch(ensFn, "(seq.DocsOrder).IsReverse")
	if len(sortBr) != 2 || len(ensBr) != 2 {
		c.Undecided("pair:sort-cut:shape", sortFn.Pos(), "List.Sort / calcEnsuredIDsCount no longer branch on IsDesc / IsReverse with one comparator closure per branch (found %d / %d)", len(sortBr), len(ensBr))
		return
	}
	for name, k := range c.P.EnumConsts("seq", "DocsOrder") {
		d, ok1 := orderPredValue(isDesc, k)
		r, ok2 := orderPredValue(isRev, k)
		if !ok1 || !ok2 {
			c.Undecided("pair:sort-cut:pred", isDesc.Pos(), "IsDesc/IsReverse are no longer one-line comparisons with a DocsOrder constant")
			continue
		}
		sf, sop := borderFieldOf(sortBr[d])
		ef, eop := borderFieldOf(ensBr[r])
		if sf == "" || ef == "" {
			c.Undecided("pair:sort-cut:field:"+name, sortFn.Pos(), "cannot see which frac.Info border is compared for %s", name)
			continue
		}
		wantField := "To"
		if !d {
			wantField = "From"
		}
		if sf == ef && sf == wantField {
			c.Site(sortFn.Pos(), "%s: fractions sorted by Info.%s (%s), ids compared with the next fraction's Info.%s", name, sf, sop, ef)
		} else {
			c.Violation("pair:sort-cut:"+name, ensFn.Pos(), "for %s the fraction list is sorted by Info.%s but the early-termination test uses Info.%s (expected %s for both): ids are declared final although an unsearched fraction can still displace them", name, sf, ef, wantField)
		}
		// direction of the sort: descending by To uses '>', ascending by From uses '<'
		if d && sop != token.GTR && sop != token.GEQ || !d && sop != token.LSS && sop != token.LEQ {
			c.Violation("pair:sort-direction:"+name, sortFn.Pos(), "for %s the fractions are sorted in the wrong direction (%s on Info.%s)", name, sop, sf)
		}
		if eop == token.LEQ || eop == token.GEQ {
			c.Site(ensFn.Pos(), "%s: ids equal to the border are not final (non-strict %s)", name, eop)
		} else {
			c.Violation("pair:cut-nonstrict:"+name, ensFn.Pos(), "for %s the early-termination test is strict (%s): an id whose timestamp equals the next fraction's border is declared final although that fraction can hold ids with the same timestamp that sort before it", name, eop)
		}
	}
}

// repetitionKeyIsID: rule body of C05.6, shared with other properties.
func repetitionKeyIsID(c *Ctx) {
	fn := c.Fn("seq.removeRepetitionsAdvanced")
	if fn == nil {
		return
	}
	bad := false
	for _, f := range []string{"Source", "Hint"} {
		for _, l := range c.P.FindLifted(fn, FieldLoad("seq.IDSource", f)) {
			// reads that only feed the kept element (copying the struct) are not comparisons
			usedInCompare := false
			if v, ok := l.In.(ssa.Value); ok {
				for _, r := range *v.Referrers() {
					if bo, isBo := r.(*ssa.BinOp); isBo && (bo.Op == token.EQL || bo.Op == token.NEQ) {
						usedInCompare = true
					}
				}
			}
			if usedInCompare {
				bad = true
				c.Violation("pair:removeRepetitions:key:"+f, l.In.Pos(), "the repetition test of the result merge compares IDSource.%s: the same document returned by two shards (or fractions) is kept twice, the total is not reduced and pages repeat documents", f)
			}
		}
	}
	for _, l := range c.P.FindLifted(fn, func(in ssa.Instruction) bool {
		bo, ok := in.(*ssa.BinOp)
		return ok && (bo.Op == token.EQL || bo.Op == token.NEQ) && strings.HasSuffix(TypeStr(bo.X.Type()), "seq.IDSource")
	}) {
		bad = true
		c.Violation("pair:removeRepetitions:key:struct", l.In.Pos(), "the repetition test of the result merge compares whole IDSource values (id, source and hint): the same document returned by two shards is kept twice")
	}
	if !c.P.Has(fn, FieldLoad("seq.IDSource", "ID")) {
		c.Violation("pair:removeRepetitions:no-id", fn.Pos(), "removeRepetitionsAdvanced no longer compares the document ids")
		bad = true
	}
	if !bad {
		c.Site(fn.Pos(), "repetitions are decided by IDSource.ID alone")
	}
}
