// seqverif decides structural necessary conditions of the seq-db properties
// by static analysis of /repo's current working tree.
package main

import (
	"encoding/json"
	"flag"
	"fmt"
	"os"
	"path/filepath"
	"regexp"
	"sort"
	"strconv"
	"strings"
	"time"

	"seqverif/internal/kit"
	"seqverif/internal/props"
)

type knownFinding struct {
	Property string `json:"property"`
	Key      string `json:"key"`
	Status   string `json:"status"` // known | fixed
	Commit   string `json:"commit,omitempty"`
	What     string `json:"what"`
	Line     string `json:"line,omitempty"`
}

type knownFile struct {
	Findings []knownFinding `json:"findings"`
}

func main() {
	var (
		prop      = flag.String("property", "", "property id (C01..C20) or 'all'")
		tier      = flag.String("tier", "quick", "quick|thorough")
		repo      = flag.String("repo", "/repo", "repository root")
		verif     = flag.String("verif", "/verif", "verif root (evidence, known findings)")
		replay    = flag.String("replay", "", "violation report to re-run")
		list      = flag.Bool("list", false, "list obligations")
		nowrite   = flag.Bool("n", false, "do not write evidence")
		lockstats = flag.String("lockstats", "", "discovery aid: comma-separated repo packages whose mutex-owning structs are profiled")
	)
	flag.Parse()
	if *lockstats != "" {
		prog, err := kit.Load(*repo, nil, nil)
		if err != nil {
			fmt.Println(err)
			os.Exit(2)
		}
		props.LockStats(prog, strings.Split(*lockstats, ","))
		return
	}
	if *replay != "" {
		data, err := os.ReadFile(*replay)
		if err != nil {
			fmt.Println("cannot read replay file:", err)
			os.Exit(2)
		}
		var v kit.Viol
		if err := json.Unmarshal(data, &v); err != nil {
			fmt.Println("bad replay file:", err)
			os.Exit(2)
		}
		*prop = v.Prop
		os.Exit(run(*repo, *verif, []string{v.Prop}, *tier, v.Ob, true, *list))
	}
	if *prop == "" {
		fmt.Println("usage: seqverif -property Cxx [-tier quick|thorough]")
		os.Exit(2)
	}
	ids := []string{*prop}
	if *prop == "all" {
		ids = props.IDs()
	}
	os.Exit(run(*repo, *verif, ids, *tier, "", *nowrite, *list))
}

var unsafeRe = regexp.MustCompile(`[^A-Za-z0-9_.-]+`)

func run(repo, verif string, ids []string, tier, onlyOb string, nowrite, list bool) int {
	start := time.Now()
	seed := 0
	if s := os.Getenv("VERIF_SEED"); s != "" {
		seed, _ = strconv.Atoi(s)
	}
	for _, id := range ids {
		if props.Get(id) == nil {
			fmt.Printf("unknown property %s (registered: %v)\n", id, props.IDs())
			return 2
		}
	}
	prog, err := kit.Load(repo, nil, nil)
	if err != nil {
		fmt.Println("LOAD FAILED:", err)
		for _, id := range ids {
			fmt.Printf("VIOLATION property=%s replay=%s\n", id, "load-failure")
		}
		return 1
	}
	loadS := time.Since(start).Seconds()
	fmt.Printf("analysed: %d repo packages, %d repo functions with bodies (load+SSA %.1fs)\n", len(prog.Pkgs), len(prog.Funcs), loadS)

	var kf knownFile
	if data, err := os.ReadFile(filepath.Join(verif, "known_findings.json")); err == nil {
		if err := json.Unmarshal(data, &kf); err != nil {
			fmt.Println("known_findings.json is not valid JSON:", err)
			return 2
		}
	}
	exit := 0
	for _, id := range ids {
		t0 := time.Now()
		info := props.Get(id)
		obs := info.Obs()
		var results []*kit.ObResult
		for _, ob := range obs {
			if ob.Tier == "thorough" && tier != "thorough" {
				continue
			}
			if onlyOb != "" && ob.ID != onlyOb {
				continue
			}
			if list {
				fmt.Printf("%s [%s] %s\n", ob.ID, ob.Engine, ob.Desc)
				continue
			}
			results = append(results, prog.Run(ob))
		}
		if list {
			continue
		}
		nviol, nknown, sites, nontrivial, discharged := 0, 0, 0, 0, 0
		var samples []any
		var violOut []kit.Viol
		counters := map[string]int{}
		vdir := filepath.Join(verif, "evidence", "violations", id)
		if !nowrite {
			os.RemoveAll(vdir)
		}
		for _, r := range results {
			sites += len(r.Sites)
			if len(r.Sites) > 0 {
				nontrivial++
			}
			for k, v := range r.Counter {
				counters[r.Ob.ID+":"+k] += v
			}
			unlisted := 0
			for i := range r.Viols {
				v := &r.Viols[i]
				for _, k := range kf.Findings {
					if k.Property == id && k.Key == v.Key && k.Status == "known" {
						v.Known = true
					}
				}
				if v.Known {
					nknown++
					fmt.Printf("KNOWN-FINDING: property=%s %s at %s: %s\n", id, v.Key, v.Pos, v.Msg)
				} else {
					unlisted++
					nviol++
					path := filepath.Join(vdir, unsafeRe.ReplaceAllString(v.Key, "_")+".json")
					if len(filepath.Base(path)) > 200 {
						path = filepath.Join(vdir, unsafeRe.ReplaceAllString(v.Key, "_")[:180]+".json")
					}
					if !nowrite {
						os.MkdirAll(vdir, 0o755)
						data, _ := json.MarshalIndent(v, "", " ")
						os.WriteFile(path, data, 0o644)
					}
					fmt.Printf("  %s [%s] %s at %s\n      rule: %s\n      %s\n", strings.ToUpper(v.Kind), v.Engine, v.Key, v.Pos, v.Desc, v.Msg)
					fmt.Printf("VIOLATION property=%s replay=%s\n", id, path)
				}
				violOut = append(violOut, *v)
			}
			if unlisted == 0 && len(r.Viols) == 0 {
				discharged++
			}
			smp := map[string]any{"obligation": r.Ob.ID, "engine": r.Ob.Engine, "rule": r.Ob.Desc, "matched": len(r.Sites), "violations": len(r.Viols)}
			var ss []kit.Site
			for i, s := range r.Sites {
				if i >= 6 {
					break
				}
				ss = append(ss, s)
			}
			smp["constructs"] = ss
			if len(r.Notes) > 0 {
				smp["notes"] = r.Notes
			}
			samples = append(samples, smp)
			status := "discharged"
			if len(r.Viols) > 0 {
				status = fmt.Sprintf("%d violation(s), %d unlisted", len(r.Viols), unlisted)
			}
			fmt.Printf("  %-8s %-22s sites=%-4d %s\n", r.Ob.ID, r.Ob.Engine, len(r.Sites), status)
		}
		wall := time.Since(t0).Seconds() + loadS
		fmt.Printf("%s: obligations=%d discharged=%d constructs=%d unlisted-violations=%d known-findings=%d (%.1fs)\n",
			id, len(results), discharged, sites, nviol, nknown, wall)
		if nviol > 0 {
			exit = 1
		}
		if nowrite {
			continue
		}
		sort.Slice(violOut, func(i, j int) bool { return violOut[i].Key < violOut[j].Key })
		ev := map[string]any{
			"property_id": id,
			"tier":        tier,
			"seed":        seed,
			"level":       "other",
			"coverage": map[string]any{
				"explanation":         info.Explanation,
				"obligations":         len(results),
				"discharged":          discharged,
				"evaluations":         sites,
				"distinct_nontrivial": nontrivial,
				"rule":                "one evaluation = one construct (call site, return, store, switch, table row, abstract file-set state) a rule was applied to; an obligation is non-trivial when it matched at least one construct on this run",
				"samples":             samples,
				"checker_cmd":         fmt.Sprintf("/verif/bin/seqverif -property %s -tier %s -repo %s", id, tier, repo),
				"trusted_base":        []string{"go/types and go/ssa (golang.org/x/tools v0.29.0)", "dominator/post-dominator computation", "frozen tables in /verif/checker/internal/props (one reason per row)", "dependency summaries listed in assumptions"},
				"packages_analysed":   len(prog.Pkgs),
				"functions_analysed":  len(prog.Funcs),
				"counters":            counters,
				"exhaustive":          false,
			},
			"assumptions":    info.Assumptions,
			"wall_s":         wall,
			"violations":     nviol,
			"known_findings": nknown,
			"violation_list": violOut,
		}
		os.MkdirAll(filepath.Join(verif, "evidence"), 0o755)
		data, _ := json.MarshalIndent(ev, "", " ")
		if err := os.WriteFile(filepath.Join(verif, "evidence", id+".json"), data, 0o644); err != nil {
			fmt.Println("cannot write evidence:", err)
			return 2
		}
	}
	return exit
}
