#!/usr/bin/env python3
# Prints the markdown table of DESIGN.md §9 from seeded/*/meta.json and the output of ./seedcheck.sh (stdin or /tmp/seedcheck.txt).
import json, glob, os, re, sys
res = {}
src = sys.argv[1] if len(sys.argv) > 1 else "/tmp/seedcheck.txt"
for l in open(src):
    m = re.match(r"(C\d\d-[mx]\d+): exit=(\d+) caught_by=\[(.*)\]", l)
    if m:
        res[m.group(1)] = m.group(3).strip()
print("| seed | change (first sentence of the author's summary) | reported by |")
print("|------|--------------------------------------------------|-------------|")
for d in sorted(glob.glob("/verif/seeded/C*-[mx]*")):
    name = os.path.basename(d)
    meta = json.load(open(os.path.join(d, "meta.json")))
    s = meta.get("summary", "").replace("|", "\\|").replace("\n", " ")
    s = s[:170]
    by = res.get(name, "?")
    print("| %s | %s | %s |" % (name, s, by if by else "**missed**"))
