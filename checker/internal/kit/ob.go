package kit

import (
	"fmt"
	"go/token"
	"sort"
	"strings"

	"golang.org/x/tools/go/ssa"
)

// Ob is one obligation: a structural necessary condition of a property,
// decided on the current tree.
type Ob struct {
	Prop   string // "C01"
	ID     string // "C01.1" — stable
	Engine string // rule engine name(s) from DESIGN §2.3
	Desc   string // what must hold
	Floor  int    // minimum number of matched constructs (default 1): fewer => vacuous => undecided
	Tier   string // "" = quick+thorough, "thorough" = thorough only
	Check  func(c *Ctx)
}

// Site is a construct the obligation was evaluated on.
type Site struct {
	What string `json:"what"`
	Pos  string `json:"pos"`
}

// Viol is one violation, keyed without line numbers.
type Viol struct {
	Prop   string `json:"property"`
	Ob     string `json:"obligation"`
	Engine string `json:"engine"`
	Kind   string `json:"kind"` // "violated" | "undecided"
	Key    string `json:"key"`  // rule + function + construct
	Pos    string `json:"pos"`
	Msg    string `json:"msg"`
	Desc   string `json:"obligation_text"`
	Known  bool   `json:"known_finding"`
	Ctx    string `json:"context,omitempty"`
}

// ObResult is the verdict for one obligation.
type ObResult struct {
	Ob      *Ob
	Sites   []Site
	Viols   []Viol
	Notes   []string
	Counter map[string]int
}

// Ctx is handed to Check functions.
type Ctx struct {
	P   *Prog
	Ob  *Ob
	Res *ObResult
}

// Fn resolves an anchor, reporting "undecided" when it is gone.
func (c *Ctx) Fn(name string) *ssa.Function {
	fn := c.P.Func(name)
	if fn == nil {
		c.Undecided("anchor:"+name, token.NoPos, "anchor function "+name+" no longer resolves; the obligation cannot be shown")
	}
	return fn
}

// Fns resolves several anchors; ok=false if any is missing.
func (c *Ctx) Fns(names ...string) ([]*ssa.Function, bool) {
	ok := true
	var out []*ssa.Function
	for _, n := range names {
		f := c.Fn(n)
		if f == nil {
			ok = false
		}
		out = append(out, f)
	}
	return out, ok
}

// Site records a construct the rule was applied to.
func (c *Ctx) Site(pos token.Pos, format string, a ...any) {
	c.Res.Sites = append(c.Res.Sites, Site{What: fmt.Sprintf(format, a...), Pos: c.P.Pos(pos)})
}

// Count bumps a named counter reported in the evidence.
func (c *Ctx) Count(name string, n int) {
	if c.Res.Counter == nil {
		c.Res.Counter = map[string]int{}
	}
	c.Res.Counter[name] += n
}

// Note adds a free-text remark to the evidence.
func (c *Ctx) Note(format string, a ...any) {
	c.Res.Notes = append(c.Res.Notes, fmt.Sprintf(format, a...))
}

// Violation reports a construct that breaks the obligation. key must be
// position-free (function + construct).
func (c *Ctx) Violation(key string, pos token.Pos, format string, a ...any) {
	c.add("violated", key, pos, fmt.Sprintf(format, a...))
}

// Undecided reports that the rule could not be applied (anchor gone / shape not understood).
func (c *Ctx) Undecided(key string, pos token.Pos, format string, a ...any) {
	c.add("undecided", key, pos, fmt.Sprintf(format, a...))
}

func (c *Ctx) add(kind, key string, pos token.Pos, msg string) {
	full := c.Ob.ID + "|" + key
	for _, v := range c.Res.Viols {
		if v.Key == full {
			return
		}
	}
	c.Res.Viols = append(c.Res.Viols, Viol{Prop: c.Ob.Prop, Ob: c.Ob.ID, Engine: c.Ob.Engine, Kind: kind,
		Key: full, Pos: c.P.Pos(pos), Msg: msg, Desc: c.Ob.Desc})
}

// Run evaluates one obligation, converting checker panics into undecided results.
func (p *Prog) Run(ob *Ob) (res *ObResult) {
	res = &ObResult{Ob: ob}
	c := &Ctx{P: p, Ob: ob, Res: res}
	defer func() {
		if r := recover(); r != nil {
			c.Undecided("checker-panic", token.NoPos, "checker panicked while evaluating: %v", r)
		}
		floor := ob.Floor
		if floor == 0 {
			floor = 1
		}
		undec := false
		for _, v := range res.Viols {
			if v.Kind == "undecided" {
				undec = true
			}
		}
		if len(res.Sites) < floor && !undec && len(res.Viols) == 0 {
			c.Undecided("floor", token.NoPos, "rule matched %d construct(s), fewer than the hand-confirmed floor %d: the obligation would pass vacuously", len(res.Sites), floor)
		}
		sort.SliceStable(res.Viols, func(i, j int) bool { return res.Viols[i].Key < res.Viols[j].Key })
	}()
	ob.Check(c)
	return res
}

// Short renders a value/instruction for messages.
func Short(v any) string {
	s := fmt.Sprint(v)
	s = CleanName(s)
	if len(s) > 120 {
		s = s[:117] + "..."
	}
	return strings.ReplaceAll(s, "\n", " ")
}
