package props

import (
	"fmt"
	"go/token"
	"go/types"
	"sort"
	"strings"

	"golang.org/x/tools/go/ssa"

	. "seqverif/internal/kit"
)

func init() {
	register(&PropInfo{
		ID:          "C12",
		Title:       "Query parsing is total and preserves the boolean meaning of the query",
		Explanation: "Totality only. (1) Every explicit panic reachable (static calls inside package parser) from ParseSeqQL, ParseQuery and ParseAggregationFilter is discharged: enum-guarded sinks by a finite-domain reachability over the declared seq.TokenizerType / logicalKind constants that follows the switched value through parameters to every call site and to its producer (indexType); type-switch defaults by coverage of every concrete type stored into the interface; the remaining caller-checked sinks by a frozen per-site guard that is re-checked at every call site. (2) Every input-driven recursion cycle (SCC of the static call graph reachable from the entry points and the AST walkers used by search) needs a depth parameter that grows along the cycle and is compared with a constant before an error return. (3) Every call of the parse entry points in the repository propagates the returned error. NOT decided: that the parsed tree denotes the written expression, precedence, De Morgan/NAND rewriting, lexer loop termination, implicit runtime panics.",
		Assumptions: []string{"values of the enum types are declared constants (no out-of-range conversions)", "recursion through interface or function values is not followed"},
		Obs:         c12,
	})
}

func parserScope(c *Ctx) []*ssa.Function {
	roots, ok := c.Fns("parser.ParseSeqQL", "parser.ParseQuery", "parser.ParseAggregationFilter")
	if !ok {
		return nil
	}
	return c.P.Scope(roots, func(rel string) bool { return rel == "parser" })
}

func c12() []*Ob {
	return []*Ob{
		{Prop: "C12", ID: "C12.1", Engine: "ENUM(panic)+DOM", Floor: 2,
			Desc: "no explicit panic/fatal sink is reachable from ParseSeqQL / ParseQuery / ParseAggregationFilter for any input string and any mapping (every mapping type: keyword, text, path, exists, object, tags, nested, noop)",
			Check: func(c *Ctx) {
				scope := parserScope(c)
				if scope == nil {
					return
				}
				tokTypes := c.P.EnumConsts("seq", "TokenizerType")
				if len(tokTypes) < 3 {
					c.Undecided("enum:TokenizerType", token.NoPos, "cannot enumerate the constants of seq.TokenizerType")
					return
				}
				producer := Callee("parser.indexType")
				guards := map[string]struct {
					char   []int64
					reason string
				}{
					"(*parser.tokenParser).parseQuotedTerms": {[]int64{'"'}, "callers test tp.cur() == '\"' first"},
					"(*parser.tokenParser).parseRange":       {[]int64{'[', '{'}, "callers test tp.cur() == '[' || '{' first"},
				}
				frozen := map[string]string{
					"parser.ParseSeqQL": "\"lexer is not end\": parseSeqQLFilter at depth 0 returns only at end of input or at '|', and parsePipes consumes pipes until end of input or returns an error",
				}
				c.Count("functions_in_parse_scope", len(scope))
				for _, fn := range scope {
					occ := 0
					for _, p := range FatalSites(fn) {
						if !p.Pos().IsValid() {
							continue
						}
						occ++
						key := fmt.Sprintf("panic:%s#%d", FuncName(fn), occ)
						// (a) enum-guarded
						if subj, enum := enumSubject(p, tokTypes); subj != nil {
							reach, unknown := c.P.EnumReaching(subj, p, enum, producer, 4)
							names := EnumNames(enum, reach)
							if len(names) == 0 && !unknown {
								c.Site(p.Pos(), "%s: panic unreachable — no declared constant reaches the default branch", FuncName(fn))
							} else if len(names) == 0 {
								c.Site(p.Pos(), "%s: every declared constant is handled before the panicking default", FuncName(fn))
							} else {
								c.Violation(key, p.Pos(), "%s panics for index type(s) %s: a query on a field mapped that way reaches this default branch (the store's gRPC server has no recovery interceptor)", FuncName(fn), strings.Join(names, ", "))
							}
							continue
						}
						// (b) type-switch default
						if covered, missing, ok := typeSwitchCoverage(c.P, p); ok {
							if covered {
								c.Site(p.Pos(), "%s: type switch covers every concrete type stored into the interface", FuncName(fn))
							} else {
								c.Violation(key, p.Pos(), "%s panics for value(s) of type %s, which the repository stores into this interface", FuncName(fn), strings.Join(missing, ", "))
							}
							continue
						}
						// (c) caller-checked guards
						if g, ok := guards[FuncName(fn)]; ok {
							bad := false
							for _, call := range c.P.Callers(fn) {
								if !callerChecksRune(call, g.char) {
									bad = true
									c.Violation(key+":caller:"+FuncName(call.Parent()), call.Pos(), "%s calls %s without having tested the current rune (%s): the callee panics", FuncName(call.Parent()), FuncName(fn), g.reason)
								}
							}
							if !bad {
								c.Site(p.Pos(), "%s: panic guarded at all %d call sites (%s)", FuncName(fn), len(c.P.Callers(fn)), g.reason)
							}
							continue
						}
						if why, ok := frozen[FuncName(fn)]; ok {
							c.Site(p.Pos(), "%s: frozen exemption — %s", FuncName(fn), why)
							continue
						}
						c.Violation(key, p.Pos(), "explicit panic in %s is reachable from a parse entry point and is not discharged by an enum, type-switch or caller-guard argument", FuncName(fn))
					}
				}
			}},
		{Prop: "C12", ID: "C12.2", Engine: "RECUR", Floor: 2,
			Desc: "no unbounded input-driven recursion: every cycle of the static call graph reachable from the parse entry points, and the AST walkers applied to parsed queries (propagateNot, processor.buildEvalTree), carries a depth counter that is compared with a constant before an error return",
			Check: func(c *Ctx) {
				scope := parserScope(c)
				if scope == nil {
					return
				}
				extra := []string{"frac/processor.buildEvalTree"}
				for _, n := range extra {
					if f := c.Fn(n); f != nil {
						scope = append(scope, f)
					}
				}
				for _, comp := range SCCs(scope) {
					var names []string
					for _, f := range comp {
						names = append(names, FuncName(f))
					}
					sort.Strings(names)
					key := "recur:" + strings.Join(names, "+")
					if ok, how := DepthBounded(comp); ok {
						c.Site(comp[0].Pos(), "recursion cycle {%s} is depth-bounded: %s", strings.Join(names, ", "), how)
					} else {
						c.Violation(key, comp[0].Pos(), "recursion cycle {%s} has no depth bound: nesting in the query text (parentheses, NOT chains, long AND/OR chains for the tree walkers) drives the goroutine stack until the runtime aborts the process (fatal error: stack overflow is not recoverable)", strings.Join(names, ", "))
					}
				}
			}},
		{Prop: "C12", ID: "C12.3", Engine: "ERRFLOW", Floor: 4,
			Desc: "every call of parser.ParseSeqQL / ParseQuery / ParseAggregationFilter in non-test repository code propagates the returned error (returned, wrapped, stored or fatal) — a parse error is never dropped or turned into a query",
			Check: func(c *Ctx) {
				m := Callee("parser.ParseSeqQL", "parser.ParseQuery", "parser.ParseAggregationFilter")
				for _, fn := range c.P.Funcs {
					pk := PkgOf(fn)
					if strings.HasPrefix(pk, "tests") || strings.HasPrefix(pk, "tools") || strings.HasPrefix(pk, "benchmarks") || strings.HasPrefix(pk, "cmd/") && pk != "cmd/seq-db" {
						continue
					}
					for _, u := range ErrorUses(fn) {
						if !m(u.Call) {
							continue
						}
						if u.Propagates {
							c.Site(u.Call.Pos(), "%s: error of %s %s", FuncName(fn), CallName(u.Call), u.Why)
						} else if FuncName(fn) == "proxy/search.tryParseFieldsFilter" {
							c.Site(u.Call.Pos(), "%s: best-effort second parse of a query the stores parse themselves (and reject); an empty filter is returned", FuncName(fn))
						} else {
							c.Violation("errflow:"+FuncName(fn)+":"+CallName(u.Call), u.Call.Pos(), "%s drops the error of %s: %s", FuncName(fn), CallName(u.Call), u.Why)
						}
					}
				}
			}},
	}
}

// enumSubject: the panic at p is the default of comparisons `v == const` on an
// enum-typed value; returns v and the universe of its type.
func enumSubject(p ssa.Instruction, tokTypes map[string]int64) (ssa.Value, map[string]int64) {
	for _, f := range FactsAtInstr(p) {
		bo, ok := f.Cond.(*ssa.BinOp)
		if !ok || bo.Op != token.EQL && bo.Op != token.NEQ {
			continue
		}
		var v ssa.Value
		if _, isK := ConstInt(bo.Y); isK {
			v = bo.X
		} else if _, isK := ConstInt(bo.X); isK {
			v = bo.Y
		}
		if v == nil {
			continue
		}
		named, ok := v.Type().(*types.Named)
		if !ok {
			continue
		}
		if named.Obj().Name() == "TokenizerType" {
			return v, tokTypes
		}
		// other enum types: collect their declared constants from the defining package
		if b, ok := named.Underlying().(*types.Basic); ok && b.Info()&types.IsInteger != 0 && named.Obj().Pkg() != nil {
			uni := map[string]int64{}
			sc := named.Obj().Pkg().Scope()
			for _, n := range sc.Names() {
				if k, ok := sc.Lookup(n).(*types.Const); ok && types.Identical(k.Type(), named) {
					if val, ok := constInt64(k); ok {
						uni[n] = val
					}
				}
			}
			if len(uni) > 0 {
				return v, uni
			}
		}
	}
	return nil, nil
}

func constInt64(k *types.Const) (int64, bool) {
	s := k.Val().ExactString()
	var v int64
	_, err := fmt.Sscan(s, &v)
	return v, err == nil
}

// typeSwitchCoverage: p is reached only when every comma-ok type assertion on
// an interface value failed; the universe is every concrete type boxed into
// that interface type anywhere in the repo.
func typeSwitchCoverage(prog *Prog, p ssa.Instruction) (covered bool, missing []string, ok bool) {
	var subject ssa.Value
	asserted := map[string]bool{}
	for _, f := range FactsAtInstr(p) {
		e, isE := f.Cond.(*ssa.Extract)
		if !isE || e.Index != 1 || f.Val {
			continue
		}
		ta, isTA := e.Tuple.(*ssa.TypeAssert)
		if !isTA || !ta.CommaOk {
			continue
		}
		subject = ta.X
		asserted[ta.AssertedType.String()] = true
	}
	if subject == nil {
		return false, nil, false
	}
	iface := subject.Type()
	universe := map[string]bool{}
	for _, fn := range prog.Funcs {
		if strings.HasPrefix(PkgOf(fn), "tests") {
			continue
		}
		for _, b := range fn.Blocks {
			for _, in := range b.Instrs {
				if mi, isMI := in.(*ssa.MakeInterface); isMI && types.Identical(mi.Type(), iface) {
					universe[mi.X.Type().String()] = true
				}
			}
		}
	}
	for t := range universe {
		if !asserted[t] {
			missing = append(missing, CleanName(t))
		}
	}
	sort.Strings(missing)
	return len(missing) == 0, missing, true
}

// callerChecksRune: the call is dominated by `tp.cur() == r` (true) for one of the runes.
func callerChecksRune(call ssa.CallInstruction, runes []int64) bool {
	for _, f := range FactsAtInstr(call.(ssa.Instruction)) {
		bo, ok := f.Cond.(*ssa.BinOp)
		if !ok {
			continue
		}
		k, isK := ConstInt(bo.Y)
		cl, isC := bo.X.(ssa.CallInstruction)
		if !isK || !isC || !strings.HasSuffix(CallName(cl), ").cur") {
			continue
		}
		for _, r := range runes {
			if k == r && (bo.Op == token.EQL) == f.Val {
				return true
			}
		}
	}
	// `a || b` guard: the call block is the join of two tests; accept when every predecessor edge established one of the runes
	b := call.(ssa.Instruction).Block()
	if len(b.Preds) > 1 {
		all := true
		for _, p := range b.Preds {
			okEdge := false
			for _, f := range FactsOnEdge(p, b) {
				bo, ok := f.Cond.(*ssa.BinOp)
				if !ok {
					continue
				}
				k, isK := ConstInt(bo.Y)
				cl, isC := bo.X.(ssa.CallInstruction)
				if !isK || !isC || !strings.HasSuffix(CallName(cl), ").cur") {
					continue
				}
				for _, r := range runes {
					if k == r && (bo.Op == token.EQL) == f.Val {
						okEdge = true
					}
				}
			}
			if !okEdge {
				all = false
			}
		}
		return all
	}
	return false
}
